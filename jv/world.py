"""E1 -- deterministic simulation world.

The real, unmodified JADE code runs as *virtual processes* (one thread each, exactly one runnable at a
time) against a simulated SLURM, fake job processes, a model of filelock.SoftFileLock on real marker
files, a virtual clock and per-process hostname/environment.  Every interaction with the outside is
interposed on *library* entry points (subprocess, time, socket, filelock, os/builtins file mutation),
never on JADE code, and every patch is gated on "the calling thread is a virtual process of the active
world" -- any other thread gets the real function.

This module must be imported (and install() called) BEFORE jade is imported.
"""

import builtins
import errno
import io
import json
import os
import re
import shlex
import socket as _socket
import subprocess as _subprocess
import sys
import threading
import time as _time
import traceback

import filelock as _filelock

# --------------------------------------------------------------------------------------------------
# saved real primitives (the models' own bookkeeping uses only these)
# --------------------------------------------------------------------------------------------------


class _Real:
    open = builtins.open
    os_open = os.open
    remove = os.remove
    unlink = os.unlink
    rename = os.rename
    replace = os.replace
    sleep = _time.sleep
    time = _time.time
    gethostname = _socket.gethostname
    Popen = _subprocess.Popen
    call = _subprocess.call
    SoftFileLock = _filelock.SoftFileLock
    Timeout = _filelock.Timeout
    stdout = sys.stdout
    stderr = sys.stderr


REAL = _Real
_tls = threading.local()
_INSTALLED = False


def cur():
    """The virtual thread running on the calling OS thread, or None."""
    return getattr(_tls, "vt", None)


class Killed(BaseException):
    """Raised inside a virtual process that was killed (SIGKILL / node failure). Never caught by JADE."""


class HarnessError(Exception):
    """The harness met something it does not model. Exit 2, never a violation."""


# --------------------------------------------------------------------------------------------------
# process identities and virtual threads
# --------------------------------------------------------------------------------------------------


class ProcId:
    """Identity of one (virtual) OS process: a root process of a thread or a synchronous child."""

    def __init__(self, world, name, host, kind, argv=None):
        self.pid = world._next_pid()
        self.name = name
        self.host = host
        self.kind = kind  # submit-jobs / run-jobs / try-submit-jobs / cancel-jobs / resubmit-jobs / ...
        self.argv = argv
        self.alive = True
        self.n_points = 0  # scheduling points seen while this process was the innermost one
        self.n_cmd = 0
        self.n_lock = 0
        self.n_write = 0
        self.inv = None  # ordinal among submitter-capable invocations (fault addressing)
        self.evlog = ([], 0, True, False)  # this process's own state of the "_jade_event" logger (handlers, level, propagate, disabled)
        self.exit = None
        self.exc = None

    def __repr__(self):
        return f"<{self.name} pid={self.pid} host={self.host}>"


class VThread:
    """One thread of control = one root virtual process plus its synchronous children."""

    def __init__(self, world, name, host, env, fn, kind, argv=None):
        self.world = world
        self.name = name
        self.host = host
        self.env = dict(env)
        self.fn = fn
        self.resume_ev = threading.Event()
        self.state = "ready"  # ready / sleeping / blocked / running / done
        self.dead = False
        self.exit = None
        self.exc = None
        self.procs = [ProcId(world, name, host, kind, argv)]
        self.wait = None
        self.wake_time = 0.0
        self.effects_seen = -1
        self.idle_wakeups = 0
        self.stdout_stack = []
        self.batch = None  # slurm id when this is a node process
        self.thread = threading.Thread(target=self._run, daemon=True, name=f"vt-{name}")

    @property
    def proc(self):
        return self.procs[-1]

    @property
    def root(self):
        return self.procs[0]

    def _run(self):
        _tls.vt = self
        self.resume_ev.wait()
        self.resume_ev.clear()
        try:
            if self.dead:
                raise Killed()
            self.state = "running"
            self.fn()
            self.exit = 0
        except SystemExit as e:
            self.exit = _exit_code(e)
        except Killed:
            self.exit = -9
        except BaseException as e:  # noqa: B036 - recorded as an observation
            self.exc = _describe_exc(e)
            self.exit = 1
        finally:
            self.root.exit = self.exit
            self.root.exc = self.exc
            for p in self.procs:
                p.alive = False
            self.state = "done"
            _tls.vt = None
            self.world._main_wake.set()

    def park(self, state, reason):
        """Called from the own thread at a scheduling point: hand the baton to the scheduler."""
        w = self.world
        if self.dead:
            raise Killed()
        w._on_sched_point(self, reason)  # may kill
        if self.dead:
            raise Killed()
        self.state = state
        self.wait = reason
        w._main_wake.set()
        self.resume_ev.wait()
        self.resume_ev.clear()
        if self.dead:
            raise Killed()
        self.state = "running"
        self.wait = None


_EVENT_LOGGER = "_jade_event"


def _evlog_get():
    import logging

    lg = logging.getLogger(_EVENT_LOGGER)
    return (list(lg.handlers), lg.level, lg.propagate, lg.disabled)


def _evlog_set(state):
    import logging

    lg = logging.getLogger(_EVENT_LOGGER)
    lg.handlers[:] = state[0]
    lg.level, lg.propagate, lg.disabled = state[1], state[2], state[3]
    if hasattr(lg, "_cache"):
        lg._cache.clear()


def _exit_code(e):
    c = e.code
    if c is None:
        return 0
    if isinstance(c, int):
        return c
    return 1


def _describe_exc(e):
    tb = traceback.extract_tb(e.__traceback__)
    frame = None
    for fr in reversed(tb):
        if "/jade/" in fr.filename.replace("\\", "/") and "/jv/" not in fr.filename:
            frame = f"{os.path.basename(fr.filename)}:{fr.name}"
            where = f"{fr.filename.split('/jade/', 1)[-1]}:{fr.lineno}:{fr.name}"
            break
    else:
        where = None
    msg = str(e)
    if len(msg) > 300:
        msg = msg[:300] + "..."
    return {"type": type(e).__name__, "msg": msg, "frame": frame, "where": where}


# --------------------------------------------------------------------------------------------------
# fake subprocess objects
# --------------------------------------------------------------------------------------------------


class SyncResult:
    """Result of an external command that ran to completion synchronously."""

    def __init__(self, rc, out="", err=""):
        self.returncode = rc
        self._out = out
        self._err = err
        self.pid = 1

    def communicate(self, *a, **k):
        return self._out.encode(), self._err.encode()

    def poll(self):
        return self.returncode

    def wait(self, *a, **k):
        return self.returncode

    def __enter__(self):
        return self

    def __exit__(self, *a):
        return False


class FakeJob:
    """A job process: poll() is decided by the scheduler (finish event)."""

    def __init__(self, world, argv, env, vt):
        self.world = world
        self.args = argv
        self.env = dict(env or {})
        self.vt = vt
        self.returncode = None
        self.pid = world._next_pid()
        self.name = self.env.get("JADE_JOB_NAME")
        self.host = vt.host
        self.batch = vt.batch
        self.died = False  # killed together with its node
        self.evfh = None
        if world.job_event_factory is not None and self.env.get("JADE_RUNTIME_OUTPUT") and self.name:
            # the job process logs structured events into its own job-outputs/<job>/events.log and keeps the file open
            # (as a real process with a FileHandler does): one event now, one when it ends
            d = os.path.join(self.env["JADE_RUNTIME_OUTPUT"], "job-outputs", self.name)
            os.makedirs(d, exist_ok=True)
            self.evpath = os.path.join(d, "events.log")
            self.evfh = REAL.open(self.evpath, "a")
            self._log_event("started")

    def _log_event(self, phase):
        text = self.world.job_event_factory(self, phase)
        self.evfh.write(text + "\n")
        self.evfh.flush()
        self.world.evseq += 1
        self.world.events_written.append((self.evpath, text, f"{self.name}:job", self.world.evseq))

    def poll(self):
        if self.returncode is not None and not getattr(self, "_reaped", False):
            # the runner learns that its job ended: progress of that process even when it writes nothing (a non-manager
            # node of a multi-node batch records no result), so its poll loop is not taken for idle
            self._reaped = True
            self.world.effects += 1
        return self.returncode

    def wait(self, *a, **k):
        raise HarnessError("wait() on a fake job process")

    def communicate(self, *a, **k):
        raise HarnessError("communicate() on a fake job process")

    def terminate(self):
        pass

    def kill(self):
        pass


class _TlsWriter(io.TextIOBase):
    """sys.stdout / sys.stderr replacement: per virtual process capture, everything else discarded."""

    def __init__(self, which):
        self.which = which

    def writable(self):
        return True

    def write(self, s):
        vt = cur()
        if vt is not None and vt.stdout_stack:
            buf = vt.stdout_stack[-1][self.which]
            if buf is not None:
                buf.append(s)
        return len(s)

    def flush(self):
        pass

    def isatty(self):
        return False

    def fileno(self):
        raise OSError("no fileno")


# --------------------------------------------------------------------------------------------------
# buffered file used when file_yields is on
# --------------------------------------------------------------------------------------------------


class _BufferedWrite:
    """A write/append text file whose content reaches the disk at close() (one atomic commit).

    open() already creates/truncates ("w") the real file, as the OS does.  A process killed before the
    commit leaves a "w" file truncated and an "a" file unchanged -- what losing an unflushed buffer does.
    """

    def __init__(self, world, vt, path, mode, kw):
        self._w = world
        self._vt = vt
        self.name = path
        self.mode = mode
        self._f = REAL.open(path, mode, **kw)
        self._buf = []
        self.closed = False

    def tell(self):
        return self._f.tell() + sum(len(x) for x in self._buf)

    def write(self, s):
        if self.closed:
            raise ValueError("I/O operation on closed file.")
        self._buf.append(s)
        return len(s)

    def writelines(self, lines):
        for x in lines:
            self.write(x)

    def flush(self):
        pass

    def fileno(self):
        return self._f.fileno()

    def writable(self):
        return True

    def readable(self):
        return False

    def seekable(self):
        return False

    def close(self):
        if self.closed:
            return
        self.closed = True
        try:
            if self._vt.dead:
                raise Killed()
            self._w._fs_point(self._vt, "commit", self.name)  # scheduling / kill / fault point
            self._f.write("".join(self._buf))
        finally:
            self._f.close()

    def __enter__(self):
        return self

    def __exit__(self, et, ev, tb):
        self.close()
        return False

    def __del__(self):
        try:
            if not self.closed:
                self._f.close()
        except Exception:
            pass


# --------------------------------------------------------------------------------------------------
# lock model
# --------------------------------------------------------------------------------------------------

_MALFORMED_AGE = 2.0
HANG_SECONDS = 90.0
HUNG_TOTAL = [0]  # how often the hang protection fired in this process (the runner discards such cases)
# non-terminal SLURM states outside JADE's five-entry table: the batch is still queued / allocated
EXOTIC_PENDING = ["REQUEUED", "REQUEUE_HOLD", "RESV_DEL_HOLD", "REQUEUE_FED"]
EXOTIC_RUNNING = ["SUSPENDED", "RESIZING", "STOPPED", "SIGNALING"]
FROZEN_STATES = ("SUSPENDED", "STOPPED")


class ModelSoftFileLock:
    """Model of filelock.SoftFileLock (3.32) on real marker files, with cooperative waiting.

    mode 'classic'  : markers are never broken (filelock < 3.2x behaviour JADE was written against)
    mode 'selfheal' : a malformed marker >= 2 virtual seconds old is broken; a marker whose owner is a dead
                      pid on the contender's own host is broken (filelock 3.32 rules)
    Outside a virtual process the real SoftFileLock is returned.
    """

    def __new__(cls, lock_file, timeout=-1, *a, **k):
        if cur() is None:
            return REAL.SoftFileLock(lock_file, timeout=timeout, *a, **k)
        return super().__new__(cls)

    def __init__(self, lock_file, timeout=-1, *a, **k):
        self.lock_file = os.fspath(lock_file)
        self.timeout = timeout
        self._held = 0

    @property
    def is_locked(self):
        return self._held > 0

    def acquire(self, timeout=None, poll_interval=0.05, **k):
        vt = cur()
        w = vt.world
        if timeout is None:
            timeout = self.timeout
        if self._held:
            self._held += 1
            return self
        proc = vt.proc
        proc.n_lock += 1
        w._fault_lock(vt, self.lock_file)  # injected Timeout
        vt.park("ready", ("lock", self.lock_file))
        waited = 0.0
        spins = 0
        while True:
            try:
                fd = REAL.os_open(self.lock_file, os.O_WRONLY | os.O_CREAT | os.O_EXCL | os.O_TRUNC, 0o644)
            except FileExistsError:
                pass
            else:
                os.write(fd, f"{proc.pid}\n{proc.host}\n".encode())
                os.close(fd)
                w._marker_times[self.lock_file] = w.clock
                self._held = 1
                w._note_lock("acquire", self.lock_file, vt)
                return self
            # contended
            content = _read_small(self.lock_file)
            if content is None:
                continue  # vanished in between (cannot happen: one thread at a time) -> retry
            holder = _parse_holder(content)
            born = w._marker_times.setdefault(self.lock_file, w.clock)
            if holder is None:
                # malformed marker (JADE's deliberate "deadlock" file, or a half-written one)
                if w.lock_mode == "selfheal":
                    remaining = born + _MALFORMED_AGE - w.clock
                    if remaining > 0:
                        if timeout is not None and 0 <= timeout < remaining:
                            self._timeout(w, vt, timeout, "malformed-fresh")
                        w.clock = born + _MALFORMED_AGE  # the poll loop simply waits it out
                    _unlink_quiet(self.lock_file)
                    w._note_lock("break-malformed", self.lock_file, vt)
                    continue
                self._timeout(w, vt, timeout, "malformed")
            pid, host = holder
            if pid == proc.pid:
                raise HarnessError(f"self-deadlock on {self.lock_file}")
            if w.pid_alive(pid):
                spins += 1
                if spins > 100000:
                    raise HarnessError("lock livelock")
                vt.park("blocked", ("lockwait", self.lock_file, pid))
                continue
            # dead owner
            if w.lock_mode == "selfheal" and host == proc.host:
                _unlink_quiet(self.lock_file)
                w._note_lock("break-dead-owner", self.lock_file, vt)
                continue
            self._timeout(w, vt, timeout, "dead-owner")

    def _timeout(self, w, vt, timeout, why):
        if timeout is None or timeout < 0:
            raise HarnessError(f"would block forever on {self.lock_file} ({why})")
        w.clock += timeout
        w._note_lock("timeout-" + why, self.lock_file, vt)
        raise REAL.Timeout(self.lock_file)

    def release(self, force=False):
        vt = cur()
        if vt is None:
            raise HarnessError("model lock released outside a virtual process")
        if vt.dead:
            raise Killed()
        if self._held > 1 and not force:
            self._held -= 1
            return
        if self._held:
            self._held = 0
            # like 3.32: unlink only if the marker is still ours
            content = _read_small(self.lock_file)
            holder = _parse_holder(content) if content is not None else None
            if holder is not None and holder[0] == vt.proc.pid:
                _unlink_quiet(self.lock_file)
            vt.world._marker_times.pop(self.lock_file, None)
            vt.world._note_lock("release", self.lock_file, vt)
            vt.park("ready", ("unlock", self.lock_file))

    def __enter__(self):
        self.acquire()
        return self

    def __exit__(self, *a):
        self.release()
        return False


def _read_small(path):
    try:
        fd = REAL.os_open(path, os.O_RDONLY)
    except FileNotFoundError:
        return None
    try:
        return os.read(fd, 2048).decode("utf-8", "replace")
    finally:
        os.close(fd)


def _parse_holder(content):
    if not content:
        return None
    lines = content.strip().splitlines()
    if len(lines) not in (2, 3):
        return None
    try:
        pid = int(lines[0])
    except ValueError:
        return None
    if pid < 1:
        return None
    return pid, lines[1]


def _unlink_quiet(path):
    try:
        REAL.unlink(path)
    except FileNotFoundError:
        pass


# --------------------------------------------------------------------------------------------------
# the world
# --------------------------------------------------------------------------------------------------

CLUSTER_FILES = ("cluster_config.json", "job_status.json", "config_version.txt", "job_status_version.txt")


class World:
    def __init__(
        self,
        root,
        exit_codes=None,
        cpus=4,
        lock_mode="classic",
        file_yields=False,
        faults=None,
        snapshots=False,
        observe_results=False,
        max_steps=8000,
        job_cmd_handler=None,
    ):
        self.root = os.path.realpath(root)
        self.exit_codes = dict(exit_codes or {})
        self.cpus = cpus  # int or callable(group_name)->int
        self.lock_mode = lock_mode
        self.file_yields = file_yields
        self.faults = list(faults or [])
        self.snapshots = snapshots
        self.observe_results = observe_results
        self.max_steps = max_steps
        self.threads = []
        self._main_wake = threading.Event()
        self.clock = 1_700_000_000.0
        self.log = []
        self.effects = 0
        self.steps = 0
        self.inconclusive = False
        self._pid = 1000
        self._pids = {}
        self._marker_times = {}
        self.jobs = []  # FakeJob in launch order
        self.slurm = {}  # id -> record
        self.sbatch_calls = 0
        self.sbatch_scripts = []  # distinct scripts in order of first sbatch
        self.squeue_calls = 0
        self.next_slurm_id = 1000
        self.invocations = []  # submitter-capable ProcIds in start order
        self.last = None
        self.schedule = []
        self.k = 0
        self.user_events = []  # [(label, callable)] enabled user commands (fired by the schedule)
        self.snap_dirs = set()
        self.snaps = []
        self.base_env = {}
        self.killed = []
        self.hung = []
        self._ignore_pauses = False
        self.event_logging = False  # virtualise the "_jade_event" logger per process and record what reaches *events.log files
        self.events_written = []  # (file, text, process, seq) of every record a FileHandler wrote to an *events.log file
        self.events_logged = []  # (text, process, seq, handlers) of every record handed to the "_jade_event" logger
        self.event_file_reads = []  # (file, seq, process): an *events.log file opened for reading (consolidation)
        self.event_file_appends = []  # (file, seq, process): an *events.log file opened for appending outside logging
        self.job_event_factory = None  # f(job, phase) -> text of a structured event the fake job processes log
        self.evseq = 0
        self.shared_node_hosts = 0  # 0: every batch on its own host; k: batches share k host names
        self.queue_hold = 0  # a busy cluster: every batch stays PENDING for at least this many virtual seconds
        self.exotic_plan = []  # [{"at": step, "steps": duration, "which": n}] unusual scheduler states (see _exotic_tick)
        self.fs_watch = set()  # basenames whose mutations are recorded as "fs" events
        self.prio = None  # per-thread priorities (by creation ordinal) or None
        self.cond_events = []  # [(label, pred(world), fn(world))]: fired once as soon as pred holds (see run)
        self.pauses = []  # [{"thread": creation ordinal, "release": n-th cluster-lock release of it, "steps": D}]
        self.fault_hits = []
        self.hook_rc = {}
        self.observe_rows = False  # record the set of result rows on disk at every lock release
        self.rowsets = []
        self.observers = []  # callables(rec) invoked synchronously at every log record
        self.extra_cmds = {}  # argv0 -> handler(world, vt, argv, env) -> SyncResult
        self._saved_environ = None
        self._saved_cwd = None

    # ---------------------------------------------------------------- bookkeeping
    def _next_pid(self):
        self._pid += 1
        return self._pid

    def pid_alive(self, pid):
        p = self._pids.get(pid)
        return bool(p is not None and p.alive)

    def note(self, _k, **kw):
        rec = {"i": len(self.log), "k": _k}
        rec.update(kw)
        self.log.append(rec)
        self.effects += 1
        for fn in self.observers:
            fn(rec)
        return rec

    def _note_lock(self, what, path, vt):
        self.effects += 1
        base = os.path.basename(path)
        if what == "release" and base == "cluster_config.json.lock" and getattr(vt, "pause_next_release", 0):
            # a process asked (by a check) to be slow right after it leaves the critical section it is in
            vt.paused_until = self.steps + vt.pause_next_release
            self.note("pause", thread=vt.name, steps=vt.pause_next_release, after=base)
            vt.pause_next_release = 0
        if what == "release" and getattr(vt, "own_pauses", None):
            # pause rules attached to this very process when it was spawned (an operator command issued at a chosen moment)
            vt.n_own_rel = getattr(vt, "n_own_rel", 0) + 1
            for rule in vt.own_pauses:
                if rule["release"] == vt.n_own_rel:
                    vt.paused_until = self.steps + rule["steps"]
                    self.note("pause", thread=vt.name, steps=rule["steps"], after=base)
        if what == "release" and self.pauses:
            vt.n_any_rel = getattr(vt, "n_any_rel", 0) + 1
            try:
                ordinal = self.threads.index(vt)
            except ValueError:
                ordinal = -1
            for rule in self.pauses:
                if rule.get("any") and rule["thread"] == ordinal and rule["release"] == vt.n_any_rel:
                    vt.paused_until = self.steps + rule["steps"]
                    self.note("pause", thread=vt.name, steps=rule["steps"], after=base)
        if self.observe_rows and what == "release":
            d = os.path.dirname(path)
            if os.path.basename(d) == "results":
                d = os.path.dirname(d)
            if os.path.exists(os.path.join(d, "processed_results.csv")):
                names = sorted(read_result_names(d))
                if not self.rowsets or self.rowsets[-1][1] != names:
                    self.rowsets.append((len(self.log), names, vt.proc.name))
        if base == "cluster_config.json.lock":
            self.note("clock", op=what, by=vt.proc.name, dir=os.path.dirname(path))
            if what == "release" and self.pauses:
                vt.n_clock_rel = getattr(vt, "n_clock_rel", 0) + 1
                try:
                    ordinal = self.threads.index(vt)
                except ValueError:
                    ordinal = -1
                for rule in self.pauses:
                    if not rule.get("any") and rule["thread"] == ordinal and rule["release"] == vt.n_clock_rel:
                        # the process is held back right after leaving a critical section (a slow node / file system):
                        # the window a check-then-act race across two critical sections needs
                        vt.paused_until = self.steps + rule["steps"]
                        self.note("pause", thread=vt.name, steps=rule["steps"])
            if what == "release" and self.snapshots:
                self.snapshot(os.path.dirname(path), by=vt.proc.name)

    def snapshot(self, outdir, by=None, force=False):
        """Record the four cluster files (raw) -- called whenever the cluster lock was just released."""
        data = {}
        for f in CLUSTER_FILES:
            try:
                with REAL.open(os.path.join(outdir, f)) as fh:
                    data[f] = fh.read()
            except FileNotFoundError:
                data[f] = None
        rows = sorted((parts[0], parts[1], parts[2]) for _, parts in read_result_rows(outdir) if len(parts) >= 3)
        res = {r[0] for r in rows}
        snap = {"i": len(self.log), "dir": outdir, "by": by, "files": data, "results": sorted(res), "rows": rows,
                "active": sorted(j for j, r in self.slurm.items()
                                 if r["state"] in ("PENDING", "RUNNING") and r["outdir"] == outdir),
                "sublock": os.path.exists(os.path.join(outdir, "submitter.lock")),  # a submitter round is in progress
                # alive for certain at this instant: not started yet, or one of its job processes is running right now
                "alive": sorted(j for j, r in self.slurm.items() if r["outdir"] == outdir and (
                    r["state"] == "PENDING" or (r["state"] == "RUNNING" and r["vt"] is not None and not r["vt"].dead and any(
                        x.batch == j and x.returncode is None and not x.died for x in self.jobs))))}
        try:
            with REAL.open(os.path.join(outdir, "results.json")) as fh:
                rj = json.load(fh)
            snap["results_json"] = {"results": sorted(r["name"] for r in rj["results"]),
                                    "missing": sorted(rj["missing_jobs"])}
        except (FileNotFoundError, ValueError, KeyError):
            snap["results_json"] = None
        if not force and self.snaps and self.snaps[-1]["files"] == data and self.snaps[-1]["dir"] == outdir \
                and self.snaps[-1]["results"] == snap["results"] and self.snaps[-1]["by"] == by:
            return self.snaps[-1]
        self.snaps.append(snap)
        return snap

    # ---------------------------------------------------------------- faults
    def _on_sched_point(self, vt, reason):
        p = vt.proc
        p.n_points += 1
        for f in self.faults:
            if f.get("kind") == "kill" and not f.get("done"):
                if self._match_target(f, vt) and f["at"] == self._target_points(f, vt):
                    f["done"] = True
                    if vt.batch is not None:
                        self.slurm[vt.batch]["death_state"] = f.get("state", "NODE_FAIL")
                    self.kill(vt, why=f"fault@{reason[0]}")
                    return

    def _match_target(self, f, vt):
        if "inv" in f:
            p = vt.proc
            return p.inv is not None and p.inv == f["inv"]
        if "batch" in f:  # n-th started batch's node process
            if vt.batch is None or self.slurm[vt.batch]["start_ord"] != f["batch"]:
                return False
            if f.get("runner_only") and vt.proc is not vt.root:
                # the point falls while the node acts as submitter (C11's domain): excluded, counted
                if f["at"] == self._target_points(f, vt):
                    f["excluded"] = True
                return False
            return True
        if "thread" in f:
            return vt.name == f["thread"]
        return False

    def _target_points(self, f, vt):
        if "inv" in f:
            return vt.proc.n_points
        return sum(p.n_points for p in vt.procs) + getattr(vt, "_closed_points", 0)

    def _fault_lock(self, vt, path):
        for f in self.faults:
            if f.get("kind") == "lock_timeout" and not f.get("done"):
                if vt.proc.inv == f.get("inv") and vt.proc.n_lock == f["at"]:
                    f["done"] = True
                    self.fault_hits.append(("lock_timeout", path))
                    self.note("fault", what="lock_timeout", path=os.path.basename(path), by=vt.proc.name)
                    self.clock += 300
                    raise REAL.Timeout(path)

    def _fault_write(self, vt, path):
        for f in self.faults:
            if f.get("kind") == "write_fail" and not f.get("done"):
                if vt.proc.inv == f.get("inv") and vt.proc.n_write == f["at"]:
                    f["done"] = True
                    self.fault_hits.append(("write_fail", path))
                    self.note("fault", what="write_fail", path=os.path.relpath(path, self.root), by=vt.proc.name)
                    raise OSError(errno.EDQUOT, "Disk quota exceeded", path)

    def kill(self, vt, why="kill"):
        """Kill a virtual thread (all its processes): no further side effects, markers stay."""
        if vt.state == "done" or vt.dead:
            return
        vt.dead = True
        for p in vt.procs:
            p.alive = False
        for j in self.jobs:
            if j.vt is vt and j.returncode is None:
                j.died = True
        self.killed.append(vt.name)
        rec = self.note("kill", thread=vt.name, why=why, proc=vt.proc.name, batch=vt.batch)
        if vt.batch is not None and self.slurm[vt.batch].get("outdir"):
            rec["rows_on_disk"] = sorted(read_result_names(self.slurm[vt.batch]["outdir"]))

    # ---------------------------------------------------------------- file layer
    def under_root(self, path):
        try:
            p = os.fspath(path)
        except TypeError:
            return False
        if isinstance(p, bytes):
            return False
        if not os.path.isabs(p):
            p = os.path.abspath(p)
        return p.startswith(self.root + os.sep)

    def _fs_point(self, vt, op, path):
        """A file mutation by a virtual process: observation always; scheduling/kill/fault point if enabled."""
        self.effects += 1
        base = os.path.basename(path)
        if base == "submitter.lock":
            self.note("sublock", op=op, by=vt.proc.name, dir=os.path.dirname(path))
        elif base in self.fs_watch:
            self.note("fs", op=op, file=base, by=vt.proc.name, dir=os.path.dirname(path))
        if not self.file_yields:
            return
        if base.endswith(".log") or "/scratch/" in path:
            return
        if op in ("commit",):
            vt.proc.n_write += 1
            self._fault_write(vt, path)
        vt.park("ready", ("fs", op, path))

    # ---------------------------------------------------------------- external commands
    def popen(self, argv, stdout=None, stderr=None, cwd=None, env=None, sync=False):
        vt = cur()
        if isinstance(argv, (str, bytes)):
            raise HarnessError(f"shell string command {argv!r}")
        argv = [os.fspath(a) for a in argv]
        exe = os.path.basename(argv[0])
        vt.proc.n_cmd += 1
        if exe == "git":
            return self._git(argv)
        if exe == "jobcmd":
            if sync:
                raise HarnessError("job command run synchronously")
            job = FakeJob(self, argv, env if env is not None else dict(os.environ), vt)
            job.launch_i = len(self.log)
            self.jobs.append(job)
            # a multi-node batch runs every job command on each of its nodes; only node 0 (the manager) records results.
            # Launches on the other nodes are logged under their own kind so that per-job oracles see one launch per job.
            job.aux = vt.env.get("SLURM_NODEID", "0") != "0"
            rec = self.note("launch_aux" if job.aux else "launch", name=job.name, argv=argv[1:], host=vt.host, batch=vt.batch,
                            by=vt.proc.name, thread=vt.name)
            if self.observe_results:
                out = job.env.get("JADE_RUNTIME_OUTPUT")
                rec["results_on_disk"] = sorted(read_result_names(out)) if out else []
            rec["live_on_node"] = sum(1 for j in self.jobs if j.vt is vt and j.returncode is None and not j.died)
            return job
        # everything else is a synchronous external command = scheduling point
        vt.park("ready", ("cmd", exe))
        if exe == "sbatch":
            return self._sbatch(argv, vt)
        if exe == "squeue":
            return self._squeue(argv, vt)
        if exe == "scancel":
            return self._scancel(argv, vt)
        if exe == "hook":
            e = dict(env if env is not None else os.environ)
            self.note("hook", what=argv[1] if len(argv) > 1 else "", argv=argv[1:], host=vt.host,
                      by=vt.proc.name, thread=vt.name, batch=vt.batch,
                      env={k: v for k, v in e.items() if k.startswith("JADE_") or k.startswith("SLURM_JOB_ID")})
            return SyncResult(self.hook_rc.get(argv[1] if len(argv) > 1 else "", 0))
        if exe in ("jade", "jade-internal"):
            return self._jade_child(argv, env, vt, capture=stdout == _subprocess.PIPE)
        if exe in self.extra_cmds:
            return self.extra_cmds[exe](self, vt, argv, env)
        raise HarnessError(f"unknown external command {argv}")

    def _git(self, argv):
        sub = argv[1] if len(argv) > 1 else ""
        out = {"rev-parse": "main\n", "log": "commit 0123abc\nAuthor: x\n", "status": "# branch.oid 0123abc\n",
               "diff": ""}.get(sub, "")
        return SyncResult(0, out, "")

    # .... SLURM simulator
    def _sbatch(self, argv, vt):
        script = argv[1]
        self.sbatch_calls += 1
        if script not in self.sbatch_scripts:
            self.sbatch_scripts.append(script)
        ordinal = self.sbatch_scripts.index(script)  # n-th distinct batch handed to sbatch
        for f in self.faults:
            k = f.get("kind")
            if k == "sbatch_fail_series" and f["nth"] == ordinal:
                self.note("sbatch_fail", script=os.path.basename(script), mode="series", by=vt.proc.name)
                self.fault_hits.append(("sbatch_fail_series", ordinal))
                return SyncResult(1, "", "sbatch: error: Batch job submission failed: Socket timed out\n")
            if k == "sbatch_fail_every" and ordinal % f["every"] == f["phase"] % f["every"]:
                # a scheduler that rejects some submissions for good (a QOS / association limit): every k-th distinct batch
                self.note("sbatch_fail", script=os.path.basename(script), mode="every", by=vt.proc.name)
                self.fault_hits.append(("sbatch_fail_every", ordinal))
                return SyncResult(1, "", "sbatch: error: Batch job submission failed: Job violates accounting/QOS policy\n")
            if k == "sbatch_fail_once" and f["nth"] == ordinal and not f.get("done"):
                f["done"] = True
                self.note("sbatch_fail", script=os.path.basename(script), mode="once", by=vt.proc.name)
                self.fault_hits.append(("sbatch_fail_once", ordinal))
                return SyncResult(1, "", "sbatch: error: Socket timed out on send/recv operation\n")
            if k == "sbatch_garbled" and f["nth"] == ordinal:
                self.note("sbatch_fail", script=os.path.basename(script), mode="garbled", by=vt.proc.name)
                self.fault_hits.append(("sbatch_garbled", ordinal))
                return SyncResult(0, "sbatch: job queued\n", "")
        rec = parse_submission(script)
        jid = str(self.next_slurm_id)
        self.next_slurm_id += 1
        rec.update(id=jid, state="PENDING", visible=True, vt=None, by=vt.proc.name, by_thread=vt.name,
                   by_host=vt.host, start_ord=None, outdir=rec["output"], t_submit=self.clock)
        self.slurm[jid] = rec
        self.note("sbatch", id=jid, batch=rec["batch"], jobs=rec["jobs"], groups=rec["groups"],
                  results_on_disk=sorted(read_result_names(rec["output"])) if rec["output"] else [],
                  estimates=rec["estimates"],
                  by=vt.proc.name, by_thread=vt.name, host=vt.host, sbatch_opts=rec["sbatch_opts"],
                  run_opts=rec["run_opts"], blocked_by=rec["blocked_by"], script=os.path.basename(script),
                  active_after=self.active_batches(rec["output"]), dir=rec["output"])
        return SyncResult(0, f"Submitted batch job {jid}\n", "")

    def active_batches(self, outdir=None):
        return sum(1 for r in self.slurm.values()
                   if r["state"] in ("PENDING", "RUNNING") and (outdir is None or r["outdir"] == outdir))

    def _squeue(self, argv, vt):
        self.squeue_calls += 1
        for f in self.faults:
            k = f.get("kind")
            if k == "squeue_fail_once" and f["nth"] == self.squeue_calls:
                self.note("squeue_fail", mode="once", by=vt.proc.name)
                self.fault_hits.append(("squeue_fail_once", self.squeue_calls))
                return SyncResult(1, "", "slurm_load_jobs error: Socket timed out on send/recv operation\n")
            # a whole retry window of JADE is 7 calls (1 + 6 retries); "len" = how many consecutive calls fail
            if k == "squeue_fail_series" and f["nth"] <= self.squeue_calls < f["nth"] + f.get("len", 7):
                self.note("squeue_fail", mode="series", by=vt.proc.name)
                self.fault_hits.append(("squeue_fail_series", self.squeue_calls))
                return SyncResult(1, "", "slurm_load_jobs error: Unable to contact slurm controller\n")
        jid = None
        if "-j" in argv:
            jid = argv[argv.index("-j") + 1]
        lines = []
        # squeue honours its filters: -p/--partition lists only batches of that partition
        part = None
        for i, a in enumerate(argv):
            if a in ("-p", "--partition") and i + 1 < len(argv):
                part = argv[i + 1]
            elif a.startswith("--partition="):
                part = a.split("=", 1)[1]
            elif a.startswith("-p") and len(a) > 2 and not a.startswith("--"):
                part = a[2:]
        with_name = "name" in " ".join(argv)
        if jid is not None and (jid not in self.slurm or not self.slurm[jid]["visible"]):
            self.note("squeue", by=vt.proc.name, seen={}, job=jid)
            return SyncResult(1, "", "slurm_load_jobs error: Invalid job id specified\n")
        for j, r in self.slurm.items():
            if not r["visible"]:
                continue
            if jid is not None and j != jid:
                continue
            if part is not None and r.get("sbatch_opts", {}).get("partition") not in part.split(","):
                continue
            shown = r.get("display") or r["state"]
            if with_name:
                lines.append(f"{j:<20}{r['name']:<20}{shown:<20}")
            else:
                lines.append(f"{j:<20}{shown:<20}")
        self.note("squeue", by=vt.proc.name, seen={j: (r.get("display") or r["state"]) for j, r in self.slurm.items() if r["visible"]})
        return SyncResult(0, "".join(x + "\n" for x in lines), "")

    def _scancel(self, argv, vt):
        jid = argv[1]
        self.note("scancel", id=jid, by=vt.proc.name)
        self.scancel_calls = getattr(self, "scancel_calls", 0) + 1
        for f in self.faults:
            if f.get("kind") == "scancel_fail" and f["nth"] == self.scancel_calls:
                # the controller does not answer: the request fails and the batch goes on as before
                self.note("scancel_fail", id=jid, by=vt.proc.name)
                self.fault_hits.append(("scancel_fail", self.scancel_calls))
                return SyncResult(1, "", f"scancel: error: Kill job error on job id {jid}: Socket timed out on send/recv operation\n")
        r = self.slurm.get(jid)
        if r is None or (not r["visible"] and r["state"] not in ("PENDING", "RUNNING")):
            # unknown, or finished and already purged from the controller's memory
            return SyncResult(1, "", f"scancel: error: Kill job error on job id {jid}: Invalid job id specified\n")
        if r["state"] == "PENDING":
            r["state"] = "CANCELLED"
            r["visible"] = False
        elif r["state"] == "RUNNING":
            r["state"] = "CANCELLED"
            r["visible"] = False
            if r["vt"] is not None:
                self.kill(r["vt"], why="scancel")
                for a in r.get("aux_vts", ()):
                    self.kill(a, why="scancel")
        return SyncResult(0)

    # .... jade child processes (synchronous, same thread, own pid/env/stdout)
    def _jade_child(self, argv, env, vt, capture):
        exe = os.path.basename(argv[0])
        args = argv[1:]
        kind = _command_kind(exe, args)
        child = ProcId(self, f"{vt.name}/{kind}#{self._pid}", vt.host, kind, argv=args)
        self._pids[child.pid] = child
        self._register_invocation(child)
        saved_env = dict(os.environ)
        if env is not None:
            os.environ.clear()
            os.environ.update(env)
        if self.event_logging:
            vt.proc.evlog = _evlog_get()
            _evlog_set(child.evlog)  # a new process starts without event handlers
        vt.procs.append(child)
        bufs = {"out": [] if capture else None, "err": [] if capture else None}
        vt.stdout_stack.append(bufs)
        self.note("proc_start", name=child.name, kind=kind, args=args, host=vt.host, inv=child.inv)
        rc = None
        try:
            rc = run_cli(exe, args)
        except SystemExit as e:
            rc = _exit_code(e)
        except Killed:
            raise
        except HarnessError:
            raise
        except BaseException as e:  # noqa: B036
            child.exc = _describe_exc(e)
            rc = 1
        finally:
            child.alive = False
            child.exit = rc
            vt._closed_points = getattr(vt, "_closed_points", 0) + child.n_points
            vt.procs.pop()
            vt.stdout_stack.pop()
            if self.event_logging and vt.procs:
                _evlog_set(vt.proc.evlog)
            if not vt.dead:
                os.environ.clear()
                os.environ.update(saved_env)
                self.note("proc_end", name=child.name, kind=kind, exit=rc, exc=child.exc, inv=child.inv)
        return SyncResult(rc, "".join(bufs["out"] or []), "".join(bufs["err"] or []))

    def _register_invocation(self, proc):
        if proc.kind in ("submit-jobs", "try-submit-jobs", "resubmit-jobs", "cancel-jobs", "pipeline-submit",
                         "pipeline-next"):
            proc.inv = len(self.invocations)
            self.invocations.append(proc)

    # ---------------------------------------------------------------- scheduler side
    def spawn(self, name, host, env, fn, kind, argv=None, batch=None):
        vt = VThread(self, name, host, env, fn, kind, argv)
        vt.batch = batch
        self._pids[vt.root.pid] = vt.root
        self._register_invocation(vt.root)
        self.threads.append(vt)
        self.note("proc_start", name=name, kind=kind, args=argv, host=host, inv=vt.root.inv)
        vt.thread.start()
        return vt

    def spawn_cli(self, name, host, exe, args, env=None, capture=False):
        kind = _command_kind(exe, args)
        e = dict(self.base_env)
        e.update(env or {})
        vt = self.spawn(name, host, e, lambda: run_cli(exe, list(args)), kind, argv=list(args))
        if capture:
            # what the command prints (its children capture their own output): vt.captured["out"] is a list of strings
            vt.captured = {"out": [], "err": []}
            vt.stdout_stack.append(vt.captured)
        return vt

    def _step(self, vt):
        os.environ.clear()
        os.environ.update(vt.env)
        if self.event_logging:
            _evlog_set(vt.proc.evlog)  # logging configuration is per OS process: give this process its own
        self._main_wake.clear()
        if vt.state == "sleeping":
            if self.clock < vt.wake_time:
                self.clock = vt.wake_time
            vt.wake_effects = self.effects
        vt.resume_ev.set()
        if not self._main_wake.wait(timeout=HANG_SECONDS):
            self._unhang(vt)
        vt.env = dict(os.environ)
        if self.event_logging and vt.procs:
            vt.proc.evlog = _evlog_get()
        if vt.state == "sleeping":
            # an *idle wake-up*: the process woke, changed nothing observable and went back to sleep (poll loop)
            if self.effects == getattr(vt, "wake_effects", -1):
                vt.idle_wakeups += 1
            else:
                vt.idle_wakeups = 0
            vt.effects_seen = self.effects
        if vt.state == "done":
            vt.thread.join()
            self.note("proc_end", name=vt.name, kind=vt.root.kind, exit=vt.exit, exc=vt.exc, inv=vt.root.inv)
        self.last = vt

    def _unhang(self, vt):
        """The process did not reach a scheduling point for HANG_SECONDS of wall time (an endless loop without any
        external interaction).  Raise Killed inside it so that the case can end; recorded as 'hung' (the case is then
        inconclusive -- a wall-clock signal is never a verdict)."""
        import ctypes

        self.hung.append(vt.name)
        HUNG_TOTAL[0] += 1
        self.inconclusive = True
        vt.dead = True
        for p in vt.procs:
            p.alive = False
        for _ in range(200):
            ctypes.pythonapi.PyThreadState_SetAsyncExc(ctypes.c_ulong(vt.thread.ident), ctypes.py_object(Killed))
            if self._main_wake.wait(timeout=0.5):
                break
        else:
            raise HarnessError(f"virtual process {vt.name} hangs and cannot be interrupted")
        self.note("hung", thread=vt.name)

    def _runnable(self, vt):
        if vt.state == "done":
            return None
        if vt.dead:
            return "ready"  # a killed process only unwinds (every primitive raises Killed)
        if getattr(vt, "paused_until", 0) > self.steps and not self._ignore_pauses:
            return None
        if vt.batch is not None and self.slurm[vt.batch].get("display") in FROZEN_STATES:
            return None  # the scheduler suspended the batch: its processes do not run
        if vt.state == "ready":
            return "ready"
        if vt.state == "blocked":
            # waiting for a lock: enabled only when the marker is gone or no longer owned by a live process
            lf, pid = vt.wait[1], vt.wait[2]
            content = _read_small(lf)
            if content is None:
                return "ready"
            h = _parse_holder(content)
            if h is None or not self.pid_alive(h[0]):
                return "ready"
            return None
        if vt.state == "sleeping":
            if vt.idle_wakeups >= 2 and vt.effects_seen == self.effects:
                return None  # a poll loop that saw no change: resumed only after something changed
            return "sleeping"
        return None

    def enabled(self):
        ev = self._enabled()
        if not ev and any(r.get("display") for r in self.slurm.values()):
            for r in self.slurm.values():
                r["display_until"] = 0  # nothing else can happen: the unusual state ends
            ev = self._enabled()
        if not ev and self.queue_hold:
            held = [r["t_submit"] + self.queue_hold for r in self.slurm.values() if r["state"] == "PENDING"]
            if held and min(held) > self.clock:
                self.clock = min(held)  # nothing else can happen: time passes until the scheduler starts a queued batch
                self.effects += 1
                ev = self._enabled()
        if not ev and any(getattr(vt, "paused_until", 0) > self.steps and vt.state != "done" for vt in self.threads):
            for vt in self.threads:
                vt.paused_until = 0  # nothing else can happen: the held-back processes continue
            ev = self._enabled()
        return ev

    def _exotic_tick(self):
        """Unusual scheduler states are part of the case: at generated step numbers a queued/running batch is shown in
        a non-terminal state outside JADE's table for a generated number of steps."""
        for jid, r in self.slurm.items():
            if r.get("display") and self.steps >= r.get("display_until", 0):
                self.note("exotic_end", id=jid, state=r["display"])
                r["display"] = None
        while self.exotic_plan and self.steps >= self.exotic_plan[0]["at"]:
            plan = self.exotic_plan.pop(0)
            active = [jid for jid, r in self.slurm.items() if r["state"] in ("PENDING", "RUNNING") and not r.get("display")
                      and not (r["vt"] is not None and r["vt"].state == "done")]
            if not active:
                continue
            jid = active[plan["which"] % len(active)]
            r = self.slurm[jid]
            names = EXOTIC_PENDING if r["state"] == "PENDING" else EXOTIC_RUNNING
            r["display"] = names[plan["which"] % len(names)]
            r["display_until"] = self.steps + plan["steps"]
            self.note("exotic", id=jid, state=r["display"], real=r["state"], steps=plan["steps"])

    def _enabled(self):
        if self.exotic_plan or any(r.get("display") for r in self.slurm.values()):
            self._exotic_tick()
        ready, sleeping = [], []
        for vt in self.threads:
            r = self._runnable(vt)
            if r == "ready":
                ready.append(("run", vt))
            elif r == "sleeping":
                sleeping.append(("run", vt))
        if self.prio:
            # priority mode (PCT-style): the default choice is the ready process with the highest generated priority
            order = {id(vt): i for i, vt in enumerate(self.threads)}
            ready.sort(key=lambda e: (-self.prio[order[id(e[1])] % len(self.prio)], order[id(e[1])]))
            sleeping.sort(key=lambda e: (-self.prio[order[id(e[1])] % len(self.prio)], order[id(e[1])]))
            ev = list(ready)
        else:
            ev = [e for e in ready if e[1] is self.last]
            ev += [e for e in ready if e[1] is not self.last]
            # sleepers in the order of their wake-up times (stable): the default choice lets virtual time pass as a clock
            # would; the schedule can still pick any sleeper first (sleeps are lower bounds: a slow process)
            sleeping.sort(key=lambda e: getattr(e[1], "wake_time", 0.0))
        for jid, r in self.slurm.items():
            if r["state"] == "PENDING" and self.clock >= r.get("t_submit", 0) + self.queue_hold:
                ev.append(("start", jid))
        for j in self.jobs:
            if j.returncode is None and not j.died and j.vt.state != "done" and not j.vt.dead:
                if j.batch is not None and self.slurm[j.batch].get("display") in FROZEN_STATES:
                    continue
                ev.append(("finish", j))
        for jid, r in self.slurm.items():
            if r["state"] == "RUNNING" and r["vt"] is not None and r["vt"].state == "done" and all(
                    a.state == "done" for a in r.get("aux_vts", ())):
                ev.append(("end", jid))
        for jid, r in self.slurm.items():
            if r["state"] in ("COMPLETED", "FAILED", "TIMEOUT", "NODE_FAIL") and r["visible"]:
                ev.append(("expire", jid))
        ev += sleeping
        for i, ue in enumerate(self.user_events):
            pred = ue[1]
            if pred is None or pred(self):
                ev.append(("user", i))
            break  # user commands are issued in their generated order
        return ev

    def fire(self, e):
        kind = e[0]
        self.steps += 1
        if kind == "run":
            self._step(e[1])
        elif kind == "start":
            self.start_batch(e[1])
        elif kind == "finish":
            self.finish_job(e[1])
        elif kind == "end":
            self.end_batch(e[1])
        elif kind == "expire":
            self.slurm[e[1]]["visible"] = False
            self.note("expire", id=e[1])
        elif kind == "user":
            ue = self.user_events.pop(e[1])
            self.note("user", cmd=ue[0])
            ue[2](self)
        else:
            raise HarnessError(f"unknown event {e}")

    def run(self, schedule=None, until=None):
        """Run until quiescent (True), until(self) holds (True) or the step budget is hit (False)."""
        if schedule is not None:
            self.schedule = list(schedule)
            self.k = 0
        while True:
            if until is not None and until(self):
                return True
            if self.steps >= self.max_steps:
                self.inconclusive = True
                return False
            if self.user_events and len(self.user_events[0]) > 3 and self.user_events[0][3]:
                # a *forced* user command fires as soon as its predicate holds (its moment is part of the case)
                ue = self.user_events[0]
                if ue[1] is None or ue[1](self):
                    self.fire(("user", 0))
                    continue
            if self.cond_events:
                # commands bound to a *condition of the world* (e.g. "one batch left with one job running"): each fires
                # once, as soon as its predicate holds, independently of the others
                hit = next((i for i, ce in enumerate(self.cond_events) if ce[1](self)), None)
                if hit is not None:
                    ce = self.cond_events.pop(hit)
                    self.steps += 1
                    self.note("user", cmd=ce[0], cond=True)
                    ce[2](self)
                    continue
            ev = self.enabled()
            if not ev:
                return True
            if self.k < len(self.schedule):
                idx = self.schedule[self.k] % len(ev)
                self.k += 1
            else:
                idx = 0
            self.fire(ev[idx])

    # .... simulator events
    def node_env(self, jid, rec):
        env = dict(self.base_env)
        cpus = self.cpus(rec) if callable(self.cpus) else self.cpus
        scratch = os.path.join(self.root, "scratch", jid)
        os.makedirs(scratch, exist_ok=True)
        env.update(SLURM_JOB_ID=jid, SLURM_NODEID="0", SLURM_CPUS_ON_NODE=str(cpus), LOCAL_SCRATCH=scratch,
                   SLURM_JOB_NAME=rec["name"])
        return env

    def start_batch(self, jid):
        rec = self.slurm[jid]
        rec["state"] = "RUNNING"
        rec["display"] = None
        rec["start_ord"] = sum(1 for r in self.slurm.values() if r["start_ord"] is not None)
        argv = shlex.split(rec["cmdline"])
        exe, args = os.path.basename(argv[0]), argv[1:]
        env = self.node_env(jid, rec)
        rec["cpus"] = int(env["SLURM_CPUS_ON_NODE"])
        name = f"node{jid}"
        # non-exclusive nodes: several batches may share a host name (JADE identifies a submitter by hostname)
        host = name if not self.shared_node_hosts else f"sharednode{rec['start_ord'] % self.shared_node_hosts}"
        self.note("start_batch", id=jid, batch=rec["batch"], cpus=rec["cpus"], host=host)
        vt = self.spawn(name, host, env, lambda: run_cli(exe, args), _command_kind(exe, args), argv=args, batch=jid)
        rec["vt"] = vt
        # srun starts the run script on every node of the allocation (#SBATCH --nodes=N): N-1 more processes, SLURM_NODEID 1..
        rec["aux_vts"] = []
        try:
            nnodes = int(str(rec.get("sbatch_opts", {}).get("nodes", 1)))
        except ValueError:
            nnodes = 1
        for i in range(1, nnodes):
            e = dict(env, SLURM_NODEID=str(i))
            rec["aux_vts"].append(self.spawn(f"{name}.{i}", f"{host}-{i}", e, lambda: run_cli(exe, args), _command_kind(exe, args),
                                             argv=args, batch=jid))

    def finish_job(self, job, rc=None):
        if rc is None:
            rc = self.exit_codes.get(job.name, 0)
        job.returncode = rc
        for f in self.faults:
            if f.get("kind") == "unreadable_output" and f.get("job") == job.name and not f.get("done") and job.env.get("JADE_RUNTIME_OUTPUT"):
                # the job leaves a dangling symbolic link in its output directory: JADE's size scan of the directory raises
                # when the runner records the completion (an I/O error on the node at that point)
                f["done"] = True
                d = os.path.join(job.env["JADE_RUNTIME_OUTPUT"], "job-outputs", job.name)
                os.makedirs(d, exist_ok=True)
                try:
                    os.symlink(os.path.join(d, "gone.tmp"), os.path.join(d, "latest"))
                except FileExistsError:
                    pass
                self.fault_hits.append(("unreadable_output", job.name))
                self.note("fault", what="unreadable_output", job=job.name, batch=job.batch)
        if job.evfh is not None:
            job._log_event("ended")
            job.evfh.close()
            job.evfh = None
        self.note("finish_aux" if getattr(job, "aux", False) else "finish", name=job.name, rc=rc, batch=job.batch)

    def end_batch(self, jid):
        rec = self.slurm[jid]
        vt = rec["vt"]
        if vt.dead:
            rec["state"] = rec.get("death_state", "NODE_FAIL")
        else:
            rec["state"] = "COMPLETED" if vt.exit == 0 else "FAILED"
        extra = {}
        if vt.exc and not vt.dead and rec.get("outdir"):
            extra["rows_on_disk"] = sorted(read_result_names(rec["outdir"]))  # the runner died by itself: what it had recorded
        self.note("end_batch", id=jid, batch=rec["batch"], exit=vt.exit, exc=vt.exc, state=rec["state"], **extra)

    def kill_batch(self, jid, state="NODE_FAIL"):
        rec = self.slurm[jid]
        rec["death_state"] = state
        if rec["vt"] is not None:
            self.kill(rec["vt"], why=state)
            for a in rec.get("aux_vts", ()):
                self.kill(a, why=state)

    # ---------------------------------------------------------------- lifecycle
    def __enter__(self):
        global ACTIVE
        if ACTIVE is not None:
            raise HarnessError("nested worlds")
        ACTIVE = self
        self._saved_environ = dict(os.environ)
        self._saved_cwd = os.getcwd()
        return self

    def __exit__(self, *a):
        global ACTIVE
        try:
            self.shutdown()
        finally:
            ACTIVE = None
            os.environ.clear()
            os.environ.update(self._saved_environ)
            try:
                os.chdir(self._saved_cwd)
            except OSError:
                pass
        return False

    def shutdown(self):
        """Kill every virtual thread still alive so that nothing outlives the case."""
        for vt in self.threads:
            guard = 0
            if vt.thread.ident is None:
                continue
            while vt.state != "done":
                vt.dead = True
                for p in vt.procs:
                    p.alive = False
                self._main_wake.clear()
                vt.resume_ev.set()
                self._main_wake.wait(timeout=30)
                guard += 1
                if guard > 50:
                    raise HarnessError(f"thread {vt.name} does not die")
            vt.thread.join(timeout=30)

    # ---------------------------------------------------------------- views for oracles
    def events(self, *kinds):
        return [r for r in self.log if r["k"] in kinds]

    def live_threads(self):
        return [vt for vt in self.threads if vt.state != "done"]

    def abridged_log(self, limit=60):
        keep = ("sbatch", "launch", "finish", "start_batch", "end_batch", "hook", "scancel", "user", "kill",
                "fault", "sbatch_fail", "squeue_fail", "proc_end", "sublock")
        out = []
        for r in self.log:
            if r["k"] in keep:
                s = {k: v for k, v in r.items() if k in ("i", "k", "id", "batch", "jobs", "name", "rc", "by",
                                                         "what", "cmd", "exit", "exc", "thread", "why", "op",
                                                         "mode", "kind")}
                if r["k"] == "proc_end" and not (r.get("exc") or r.get("exit")):
                    continue
                out.append(s)
        if len(out) > limit:
            out = out[: limit // 2] + [{"k": "..."}] + out[-limit // 2:]
        return out


ACTIVE = None


def _command_kind(exe, args):
    if exe == "jade-internal":
        return args[0] if args else "jade-internal"
    if args and args[0] == "pipeline" and len(args) > 1:
        return {"submit": "pipeline-submit", "submit-next-stage": "pipeline-next"}.get(args[1], "pipeline")
    return args[0] if args else "jade"


def run_cli(exe, args):
    """Run a JADE click command in the calling (virtual) process. Raises SystemExit like the real one."""
    import click

    if exe == "jade-internal":
        from jade.cli.jade_internal import cli
    else:
        from jade.cli.jade import cli
    try:
        rv = cli.main(args=list(args), standalone_mode=False)
    except click.exceptions.ClickException as e:
        # usage errors: what the real executable prints and exits with
        raise SystemExit(e.exit_code)
    except click.exceptions.Abort:
        raise SystemExit(1)
    if isinstance(rv, int):
        raise SystemExit(rv)
    raise SystemExit(0)


_RE_CFG = re.compile(r"(\S*config_batch_(\d+)\.json)")


def parse_submission(script):
    """What SLURM would run for this submission script: read the script, the run script and the batch config."""
    with REAL.open(script) as f:
        text = f.read()
    opts = {}
    srun = None
    for line in text.splitlines():
        if line.startswith("#SBATCH"):
            m = re.match(r"#SBATCH\s+--([^=\s]+)(?:=(.*))?$", line)
            if not m:
                raise HarnessError(f"unparsable #SBATCH line {line!r}")
            opts[m.group(1)] = m.group(2)
        elif line.startswith("srun "):
            srun = line[len("srun "):].strip()
    if srun is None:
        raise HarnessError(f"no srun line in {script}")
    run_script = shlex.split(srun)[0]
    with REAL.open(run_script) as f:
        rtext = f.read()
    cmdline = None
    for line in rtext.splitlines():
        if line.startswith("jade-internal "):
            cmdline = line
    if cmdline is None:
        raise HarnessError(f"no jade-internal line in {run_script}")
    m = _RE_CFG.search(cmdline)
    if not m:
        raise HarnessError(f"no batch config in {cmdline}")
    with REAL.open(m.group(1)) as f:
        cfg = json.load(f)
    argv = shlex.split(cmdline)
    output = None
    for a in argv:
        if a.startswith("--output="):
            output = a.split("=", 1)[1]
    return {
        "script": script,
        "script_text": text,
        "name": opts.get("job-name"),
        "sbatch_opts": opts,
        "run_script": run_script,
        "cmdline": cmdline,
        "run_opts": argv[3:] if len(argv) > 3 else [],
        "config_file": m.group(1),
        "batch": int(m.group(2)),
        "jobs": [j["name"] for j in cfg["jobs"]],
        "groups": sorted({j.get("submission_group") for j in cfg["jobs"]}),
        "blocked_by": {j["name"]: sorted(j.get("blocked_by", [])) for j in cfg["jobs"]},
        "estimates": {j["name"]: j.get("estimated_run_minutes") for j in cfg["jobs"]},
        "output": output,
    }


def read_result_rows(outdir):
    """All result rows on disk right now: node files and the consolidated file (raw, unlocked)."""
    rows = []
    paths = []
    rdir = os.path.join(outdir, "results")
    try:
        for f in sorted(os.listdir(rdir)):
            if f.startswith("results_batch_") and f.endswith(".csv"):
                paths.append(os.path.join(rdir, f))
    except FileNotFoundError:
        pass
    paths.append(os.path.join(outdir, "processed_results.csv"))
    for p in paths:
        try:
            with REAL.open(p) as fh:
                lines = fh.read().splitlines()
        except FileNotFoundError:
            continue
        for ln in lines:
            if not ln or ln.startswith("name,"):
                continue
            parts = ln.split(",")
            rows.append((os.path.basename(p), parts))
    return rows


def read_result_names(outdir):
    return {parts[0] for _, parts in read_result_rows(outdir)}


# --------------------------------------------------------------------------------------------------
# interposition
# --------------------------------------------------------------------------------------------------


def install():
    """Patch library entry points. Idempotent. Must run before jade is imported."""
    global _INSTALLED
    if _INSTALLED:
        return
    if "jade" in sys.modules:
        raise HarnessError("jv.world.install() must run before jade is imported")
    _INSTALLED = True

    # -- subprocess
    def v_popen(args, *a, **kw):
        vt = cur()
        if vt is None:
            return REAL.Popen(args, *a, **kw)
        return vt.world.popen(args, stdout=kw.get("stdout"), stderr=kw.get("stderr"), cwd=kw.get("cwd"),
                              env=kw.get("env"))

    def v_call(args, *a, **kw):
        vt = cur()
        if vt is None:
            return REAL.call(args, *a, **kw)
        p = vt.world.popen(args, stdout=kw.get("stdout"), stderr=kw.get("stderr"), cwd=kw.get("cwd"),
                           env=kw.get("env"), sync=True)
        return p.returncode

    class PopenMeta(type):
        def __instancecheck__(cls, obj):
            return isinstance(obj, (REAL.Popen, SyncResult, FakeJob))

    class VPopen(metaclass=PopenMeta):
        def __new__(cls, args, *a, **kw):
            return v_popen(args, *a, **kw)

    _subprocess.Popen = VPopen
    _subprocess.call = v_call

    # -- time
    def v_sleep(x):
        vt = cur()
        if vt is None:
            return REAL.sleep(x)
        vt.wake_time = vt.world.clock + max(0.0, float(x))
        vt.park("sleeping", ("sleep", x))

    def v_time():
        vt = cur()
        if vt is None:
            return REAL.time()
        w = vt.world
        w.clock += 0.001
        return w.clock

    _time.sleep = v_sleep
    _time.time = v_time

    # -- structured events: observe what reaches an *events.log file (stdlib logging.FileHandler, not JADE code)
    import logging as _logging

    real_emit = _logging.FileHandler.emit

    def v_emit(self, record):
        vt = cur()
        if vt is not None and vt.world.event_logging and str(getattr(self, "baseFilename", "")).endswith("events.log"):
            if vt.dead:
                raise Killed()
            try:
                vt.world.evseq += 1
                vt.world.events_written.append((self.baseFilename, self.format(record), f"{vt.proc.name}:{vt.proc.kind}",
                                                vt.world.evseq))
            except Exception:  # noqa: BLE001
                pass
        return real_emit(self, record)

    _logging.FileHandler.emit = v_emit

    # ... and what a process hands to the structured-event logger in the first place (stdlib logging.Logger, not JADE code)
    real_call_handlers = _logging.Logger.callHandlers

    def v_call_handlers(self, record):
        vt = cur()
        if vt is not None and self.name == _EVENT_LOGGER and vt.world.event_logging and not vt.dead:
            try:
                vt.world.evseq += 1
                vt.world.events_logged.append((record.getMessage(), f"{vt.proc.name}:{vt.proc.kind}", vt.world.evseq,
                                               len(self.handlers)))
            except Exception:  # noqa: BLE001
                pass
        return real_call_handlers(self, record)

    _logging.Logger.callHandlers = v_call_handlers

    # -- identity
    def v_hostname():
        vt = cur()
        if vt is None:
            return REAL.gethostname()
        return vt.host

    _socket.gethostname = v_hostname

    # -- locks
    _filelock.SoftFileLock = ModelSoftFileLock

    # -- file mutations
    def v_open(file, mode="r", *a, **kw):
        vt = cur()
        if vt is None or isinstance(file, int):
            return REAL.open(file, mode, *a, **kw)
        w = vt.world
        if not (("w" in mode or "a" in mode or "x" in mode or "+" in mode) and w.under_root(file)):
            if w.event_logging and str(file).endswith("events.log"):
                # a consolidation reads this event file now (no scheduling point until it is read to the end)
                w.evseq += 1
                w.event_file_reads.append((os.path.abspath(os.fspath(file)), w.evseq, vt.proc.name))
            return REAL.open(file, mode, *a, **kw)
        path = os.path.abspath(os.fspath(file))
        if vt.dead:
            raise Killed()
        if w.event_logging and "a" in mode and path.endswith("events.log"):
            # run-jobs appends its jobs' own event files to its node file (JobRunner._aggregate_events)
            w.evseq += 1
            w.event_file_appends.append((path, w.evseq, vt.proc.name))
        if not w.file_yields or "b" in mode or path.endswith(".log") or "/scratch/" in path:
            w._fs_point(vt, "open-" + mode, path)
            return REAL.open(file, mode, *a, **kw)
        w._fs_point(vt, "open-" + mode, path)
        if a:
            kw = dict(kw)
            kw.update(zip(("buffering", "encoding", "errors", "newline", "closefd", "opener"), a))
        kw.pop("buffering", None)
        return _BufferedWrite(w, vt, path, mode, kw)

    builtins.open = v_open
    io.open = v_open

    def _wrap_fs(name, real):
        def f(path, *a, **kw):
            vt = cur()
            if vt is not None and not isinstance(path, int) and vt.world.under_root(path):
                if vt.dead:
                    raise Killed()
                vt.world._fs_point(vt, name, os.path.abspath(os.fspath(path)))
            return real(path, *a, **kw)

        f.__name__ = name
        return f

    os.remove = _wrap_fs("remove", REAL.remove)
    os.unlink = _wrap_fs("unlink", REAL.unlink)
    os.rename = _wrap_fs("rename", REAL.rename)
    os.replace = _wrap_fs("replace", REAL.replace)

    def v_os_open(path, flags, mode=0o777, *a, **kw):
        vt = cur()
        if vt is not None and (flags & os.O_CREAT) and vt.world.under_root(path):
            if vt.dead:
                raise Killed()
            p = os.path.abspath(os.fspath(path))
            vt.world._fs_point(vt, "create", p)
            fd = REAL.os_open(path, flags, mode, *a, **kw)
            if p.endswith(".lock"):
                vt.world._marker_times[p] = vt.world.clock
                if os.path.basename(p) == "cluster_config.json.lock":
                    vt.world.note("deadlock_marker", by=vt.proc.name, dir=os.path.dirname(p))
            return fd
        return REAL.os_open(path, flags, mode, *a, **kw)

    os.open = v_os_open


def install_stdio():
    sys.stdout = _TlsWriter("out")
    sys.stderr = _TlsWriter("err")


def restore_stdio():
    sys.stdout = REAL.stdout
    sys.stderr = REAL.stderr
