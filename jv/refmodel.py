"""E3 -- reference model.  No JADE imports; ~150 lines; the oracles' ground truth.

A scenario is a plain dict (see jv/gen.py):
  jobs   : [{"name", "blocked_by": [names], "cancel": bool, "rc": int, "est": int, "group": int}]  (listing order)
  groups : [{"batch_size", "time_based", "try_add", "walltime", "nproc", "cpus"}]
"""


def job_map(scn):
    return {j["name"]: j for j in scn["jobs"]}


def topo_order(scn):
    """Kahn's algorithm over the jobs; returns (order, cyclic) where cyclic = jobs on or behind a cycle."""
    jobs = job_map(scn)
    indeg = {n: 0 for n in jobs}
    dependents = {n: [] for n in jobs}
    for n, j in jobs.items():
        for b in set(j["blocked_by"]):
            if b in jobs:
                indeg[n] += 1
                dependents[b].append(n)
    ready = sorted(n for n, d in indeg.items() if d == 0)
    order = []
    while ready:
        n = ready.pop(0)
        order.append(n)
        for d in sorted(dependents[n]):
            indeg[d] -= 1
            if indeg[d] == 0:
                ready.append(d)
    cyclic = sorted(set(jobs) - set(order))
    return order, cyclic


def classify(scn, lost=()):
    """Outcome of every job: 'successful' | 'failed' | 'canceled' | 'missing'  (least fixpoint).

    A job gets an outcome by one of two rules, applied until nothing changes:
      (a) it is flagged cancel_on_blocking_job_failure and some blocker already has the outcome failed or
          canceled -> 'canceled' (even when another blocker never gets an outcome: the failing blocker's result is
          seen while the job is still waiting; this also breaks dependency cycles);
      (b) every blocker has an outcome and rule (a) does not apply -> it runs: 'successful' iff exit code 0.
    Jobs in `lost` (handed to a batch that never recorded them) never get an outcome; every job left without an
    outcome (lost, on or behind an unbroken cycle, waiting for such a job) is 'missing'.
    Returns (classes, set()) -- the second element is kept for API compatibility.
    """
    jobs = job_map(scn)
    lost = set(lost)
    out = {}
    changed = True
    while changed:
        changed = False
        for n in sorted(jobs):
            if n in out or n in lost:
                continue
            j = jobs[n]
            blk = [b for b in j["blocked_by"] if b in jobs]
            if j["cancel"] and any(out.get(b) in ("failed", "canceled") for b in blk):
                out[n] = "canceled"
                changed = True
            elif all(b in out for b in blk):
                out[n] = "successful" if j["rc"] == 0 else "failed"
                changed = True
    for n in jobs:
        out.setdefault(n, "missing")
    return out, set()


def classify_simple(scn):
    return classify(scn)[0]


def closure_dependents(scn, selected):
    """`selected` plus every job that transitively depends on one of them."""
    jobs = job_map(scn)
    res = set(selected)
    changed = True
    while changed:
        changed = False
        for n, j in jobs.items():
            if n not in res and res.intersection(j["blocked_by"]):
                res.add(n)
                changed = True
    return res


def batch_limit_ok(scn, group_index, names):
    """Size / time admission rule of one batch."""
    g = scn["groups"][group_index]
    jobs = job_map(scn)
    if not names:
        return False, "empty batch"
    if g["time_based"]:
        total = sum(jobs[n]["est"] for n in names)
        cap = g["walltime"] * g["nproc"]
        if total > cap:
            return False, f"estimated minutes {total} > walltime*processes {cap}"
    else:
        if len(names) > g["batch_size"]:
            return False, f"{len(names)} jobs > per_node_batch_size {g['batch_size']}"
    return True, ""


def transitively_waits_for(scn, name, targets):
    """True iff `name` depends (transitively) on one of `targets`."""
    jobs = job_map(scn)
    seen, stack = set(), list(jobs[name]["blocked_by"])
    while stack:
        b = stack.pop()
        if b in seen or b not in jobs:
            continue
        seen.add(b)
        if b in targets:
            return True
        stack.extend(jobs[b]["blocked_by"])
    return False
