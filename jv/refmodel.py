"""E3 -- reference model.  No JADE imports; ~150 lines; the oracles' ground truth.

A scenario is a plain dict (see jv/gen.py):
  jobs   : [{"name", "blocked_by": [names], "cancel": bool, "rc": int, "est": int, "group": int}]  (listing order)
  groups : [{"batch_size", "time_based", "try_add", "walltime", "nproc", "cpus"}]
"""


def job_map(scn):
    return {j["name"]: j for j in scn["jobs"]}


def topo_order(scn):
    """Kahn's algorithm over the jobs; returns (order, cyclic) where cyclic = jobs on or behind a cycle."""
    jobs = job_map(scn)
    indeg = {n: 0 for n in jobs}
    dependents = {n: [] for n in jobs}
    for n, j in jobs.items():
        for b in set(j["blocked_by"]):
            if b in jobs:
                indeg[n] += 1
                dependents[b].append(n)
    ready = sorted(n for n, d in indeg.items() if d == 0)
    order = []
    while ready:
        n = ready.pop(0)
        order.append(n)
        for d in sorted(dependents[n]):
            indeg[d] -= 1
            if indeg[d] == 0:
                ready.append(d)
    cyclic = sorted(set(jobs) - set(order))
    return order, cyclic


def classify(scn, lost=()):
    """Outcome of every job: 'successful' | 'failed' | 'canceled' | 'missing'.

    A flagged job is canceled iff some blocker is failed or canceled.  Otherwise it runs once all blockers
    have an outcome, and is successful iff its exit code is 0.  Jobs in `lost` (their batch never ran them)
    and jobs on or behind a dependency cycle never get an outcome: 'missing'; a job that waits for a missing
    job is missing too unless it is flagged and another of its blockers failed / was canceled (then the
    cancellation may or may not have been detected before the wait became permanent: see `maybe_canceled`).
    """
    jobs = job_map(scn)
    order, cyclic = topo_order(scn)
    out = {}
    maybe = set()  # jobs for which both 'canceled' and 'missing' are acceptable
    lost = set(lost)
    for n in order:
        j = jobs[n]
        blk = [out[b] for b in j["blocked_by"] if b in jobs]
        bad = any(o in ("failed", "canceled") for o in blk)
        maybe_bad = any(b in maybe for b in j["blocked_by"])
        miss = any(o == "missing" for o in blk)
        if j["cancel"] and bad and not miss:
            out[n] = "canceled"
        elif j["cancel"] and bad and miss:
            out[n] = "canceled"
            maybe.add(n)
        elif miss:
            out[n] = "missing"
            if j["cancel"] and maybe_bad:
                maybe.add(n)
        elif n in lost:
            out[n] = "missing"
        else:
            if j["cancel"] and maybe_bad:
                # a blocker is canceled-or-missing: this job is then canceled-or-missing as well
                out[n] = "missing"
                maybe.add(n)
            else:
                out[n] = "successful" if j["rc"] == 0 else "failed"
    for n in cyclic:
        out[n] = "missing"
    return out, maybe


def classify_simple(scn):
    return classify(scn)[0]


def closure_dependents(scn, selected):
    """`selected` plus every job that transitively depends on one of them."""
    jobs = job_map(scn)
    res = set(selected)
    changed = True
    while changed:
        changed = False
        for n, j in jobs.items():
            if n not in res and res.intersection(j["blocked_by"]):
                res.add(n)
                changed = True
    return res


def batch_limit_ok(scn, group_index, names):
    """Size / time admission rule of one batch."""
    g = scn["groups"][group_index]
    jobs = job_map(scn)
    if not names:
        return False, "empty batch"
    if g["time_based"]:
        total = sum(jobs[n]["est"] for n in names)
        cap = g["walltime"] * g["nproc"]
        if total > cap:
            return False, f"estimated minutes {total} > walltime*processes {cap}"
    else:
        if len(names) > g["batch_size"]:
            return False, f"{len(names)} jobs > per_node_batch_size {g['batch_size']}"
    return True, ""


def transitively_waits_for(scn, name, targets):
    """True iff `name` depends (transitively) on one of `targets`."""
    jobs = job_map(scn)
    seen, stack = set(), list(jobs[name]["blocked_by"])
    while stack:
        b = stack.pop()
        if b in seen or b not in jobs:
            continue
        seen.add(b)
        if b in targets:
            return True
        stack.extend(jobs[b]["blocked_by"])
    return False
