"""Shared pieces of the world-based property checks."""

from hypothesis import strategies as st

from jv import gen
from jv import hpcsim as H
from jv import world as W

WORLD_ASSUMPTIONS = [
    "simulation world: real JADE code runs as virtual processes (one runnable thread at a time) against a "
    "simulated SLURM (sbatch/squeue/scancel text interface), fake job processes whose exit is a scheduler "
    "event, a model of filelock.SoftFileLock on real marker files, a virtual clock and per-process "
    "hostname/environment; interposition only on library entry points (subprocess, time, socket, filelock, "
    "os/open), no JADE source line changed",
    "scheduling points are lock acquire/release, external commands and sleeps (plus file mutations where "
    "stated); between two scheduling points a process runs atomically",
    "schedules are sampled, not enumerated, unless the evidence says exhaustive",
    "job names are j0..jN; job commands are opaque (fake processes); resource monitoring is off",
]


def setup(tier):
    H.scratch_root()
    W.install_stdio()


def teardown():
    W.restore_stdio()
    H.cleanup_scratch()


def world_cases(**kw):
    return st.fixed_dictionaries({"scn": gen.scenarios(**kw), "schedule": gen.schedules()})


def late_ops(max_size=1):
    """Operator commands bound to a moment *near the end of a batch*: fired as soon as at most `running` batches are
    active and at most `left` of their jobs have not finished, then held back for `steps` steps right after the
    command's `release`-th lock release.  This is the window in which a whole node batch records its last results and
    leaves the queue while another submitter is half-way through a round -- rare under step-number timing."""
    return st.lists(st.fixed_dictionaries({
        "cmd": st.sampled_from(["try", "try", "try", "show"]),
        "running": st.sampled_from([1, 1, 2]),
        "left": st.sampled_from([0, 1, 1, 2]),
        "release": st.integers(1, 8),
        "steps": st.integers(40, 300),
    }), max_size=max_size)


def install_late_ops(sim, specs, out=None):
    import os

    out = out or sim.out

    for spec in specs or []:
        def pred(ww, spec=spec):
            if not os.path.exists(os.path.join(out, "submitter_groups.json")):
                return False
            active = [(jid, r) for jid, r in ww.slurm.items()
                      if r["state"] == "RUNNING" and r["vt"] is not None and r["vt"].state != "done" and not r["vt"].dead
                      and r.get("outdir") == out]
            if not 1 <= len(active) <= spec["running"]:
                return False
            left = 0
            for jid, r in active:
                done = {j.name for j in ww.jobs if j.batch == jid and j.returncode is not None}
                left += sum(1 for n in r["jobs"] if n not in done)
            return left <= spec["left"]

        def fire(ww, spec=spec):
            if sim.is_complete(out):
                return
            vt = sim.user_cmd(["try-submit-jobs", out] if spec["cmd"] == "try" else ["show-status", "-o", out, "-n"])
            vt.own_pauses = [{"release": spec["release"], "steps": spec["steps"]}]

        sim.w.cond_events.append(("late-" + spec["cmd"], pred, fire))


def viol(sig, msg):
    return {"sig": sig, "msg": msg}


def sample_of(case, sim, extra=None):
    s = {
        "scenario": case["scn"],
        "schedule_len": len(case.get("schedule", [])),
        "log": sim.w.abridged_log(40),
    }
    if extra:
        s.update(extra)
    return s


def base_result(case, sim, outcome):
    res = {
        "violations": [],
        "classes": gen.scenario_classes(case["scn"]),
        "nontrivial": False,
        "sample": None,
        "inconclusive": None,
        "counters": {},
    }
    if outcome == "budget":
        res["inconclusive"] = "step-budget"
    elif outcome.startswith("stuck"):
        res["inconclusive"] = "stuck:" + outcome.split(":", 1)[1].split(":")[0]
        res["classes"].append("stuck")
    if sim.recovery_rounds:
        res["classes"].append("needed_recovery_round")
    sb = sim.w.events("sbatch")
    if len(sb) >= 2:
        res["classes"].append("batches>=2")
    if len({r["by_thread"] for r in sb}) >= 2:
        res["classes"].append("submitters>=2")
    return res


def placements(sim):
    """job name -> list of batch numbers it was handed to sbatch in."""
    placed = {}
    for r in sim.w.events("sbatch"):
        for j in r["jobs"]:
            placed.setdefault(j, []).append(r["batch"])
    return placed


def launches(sim):
    n = {}
    for r in sim.w.events("launch"):
        n[r["name"]] = n.get(r["name"], 0) + 1
    return n
