"""C03 -- final results are complete and independent of schedule and batching (metamorphic family)."""

from hypothesis import strategies as st

from jv import gen
from jv import hpcsim as H
from jv import refmodel as R
from jv.props import common as C

ID = "C03"
LEVEL = "exploration"
BUDGET = {"quick": 1600, "thorough": 20000}
RULE = (
    "case = one core (DAG, exit codes, cancel flags) run under 2-4 generated variants (batch sizes, time-based "
    "batching, try-add-blocked, max-nodes, 1-3 groups, HPC or local mode), each with its own generated schedule (a "
    "quarter of the HPC variants interleaved at file-operation granularity too); "
    "every variant must complete (with the documented recovery when needed) with exactly one result per configured "
    "job, no missing jobs, no duplicate rows, and every job's class equal to the reference evaluation of the DAG "
    "in topological order -- hence all variants agree; non-trivial = some variant submitted >= 2 batches and the "
    "core has >= 1 non-zero exit code; 'evaluations' counts families, counters.variant_runs counts submissions; "
    "distinct by hash of the family"
)
RULE += " Later additions (DESIGN.md 9): " + 'HPC variants also get up to 2 operator commands at generated steps, one bound to the end of a batch and held back between two lock holds, and up to 2 unusual-SLURM-state windows; a third of the HPC variants use multi-node batches (nodes 2-3).'
ASSUMPTIONS = C.WORLD_ASSUMPTIONS
setup, teardown = C.setup, C.teardown


@st.composite
def families(draw):
    core = draw(gen.dags(max_jobs=10, ngroups=6))
    k = draw(st.integers(2, 4))
    variants = []
    for i in range(k):
        mode = draw(st.sampled_from(["hpc", "hpc", "hpc", "local"]))
        ng = 1 if mode == "local" else draw(st.sampled_from([1, 1, 2, 3]))
        variants.append({
            "mode": mode,
            "groups": [draw(gen.group_params(len(core))) for _ in range(ng)],
            "max_nodes": draw(st.sampled_from([None, 1, 2, 3])),
            "reports": draw(st.booleans()) if mode == "hpc" else False,
            "schedule": draw(gen.schedules(120)),
            # a quarter of the HPC variants are interleaved at file-operation granularity as well (result files are
            # appended, read, copied and removed by different processes)
            "file_yields": mode == "hpc" and draw(st.sampled_from([False, False, False, True])),
            # the operator's documented commands may also run while batches are active
            "user": draw(st.lists(st.fixed_dictionaries({"at": st.integers(10, 300), "cmd": st.sampled_from(["try", "show"])}), max_size=2))
            if mode == "hpc" else [],
            # ... in particular near the end of a batch, and slowly (see common.late_ops)
            "late": draw(C.late_ops()) if mode == "hpc" else [],
            # moments at which the scheduler shows a queued/running batch in a non-terminal state outside JADE's table
            # (SUSPENDED, REQUEUED, RESIZING, ...): the batch is still alive and its jobs will get results
            "exotic": draw(st.lists(st.fixed_dictionaries({"at": st.integers(10, 300), "steps": st.integers(20, 200),
                                                           "which": st.integers(0, 7)}), max_size=2)) if mode == "hpc" else [],
            # a fifth of the HPC variants use multi-node batches (#SBATCH --nodes=2/3): every node runs the batch's commands and
            # its own try-submit-jobs, node 0 records the results -- the outcome must not depend on it
            "nodes": draw(st.sampled_from([1, 1, 1, 1, 2, 3])) if mode == "hpc" else 1,
        })
    return {"core": core, "variants": variants}


def strategy(tier):
    return families()


def variant_scenario(core, var):
    ng = len(var["groups"])
    jobs = [dict(j, group=j["group"] % ng) for j in core]
    return {
        "jobs": jobs, "groups": var["groups"], "max_nodes": var["max_nodes"], "poll": 1, "reports": var["reports"],
        "dry_run": False, "dsub": True, "mode": var["mode"], "nodes": var.get("nodes", 1),
        "hooks": {"setup": False, "teardown": False, "node_setup": False, "node_teardown": False},
    }


def run_case(case):
    core = case["core"]
    ref = R.classify_simple({"jobs": core})
    res = {"violations": [], "classes": [], "nontrivial": False, "sample": None, "inconclusive": None,
           "counters": {"variant_runs": 0}}
    v = res["violations"]
    multi = False
    logs = []
    for vi, var in enumerate(case["variants"]):
        scn = variant_scenario(core, var)
        with H.Sim(scn, schedule=var["schedule"], file_yields=var.get("file_yields", False), exotic=var.get("exotic", ()),
                   max_steps=30000 if var.get("file_yields") else 8000) as sim:
            import os

            for u in sorted(var.get("user", []), key=lambda x: x["at"]):
                def pred(ww, at=u["at"], sim=sim):
                    return ww.steps >= at and os.path.exists(os.path.join(sim.out, "submitter_groups.json"))

                def fire(ww, cmd=u["cmd"], sim=sim):
                    if not sim.is_complete():
                        sim.user_cmd(["try-submit-jobs", sim.out] if cmd == "try" else ["show-status", "-o", sim.out, "-n"])

                sim.w.user_events.append((u["cmd"], pred, fire, True))
            C.install_late_ops(sim, var.get("late"))
            sim.submit()
            outcome = sim.drive()
            sim.w.user_events.clear()
            if sim.w.events("exotic"):
                res["classes"].append("batch_shown_in_unusual_state")
            if var.get("late") and not sim.w.cond_events:
                res["classes"].append("late_operator_command_fired")
            res["counters"]["variant_runs"] += 1
            res["classes"].append("variant:" + var["mode"])
            if var.get("file_yields"):
                res["classes"].append("variant:file_granularity")
            if sim.recovery_rounds:
                res["classes"].append("needed_recovery_round")
            if outcome != "complete":
                res["inconclusive"] = "variant-" + outcome.split(":")[0]
                continue
            if len(sim.w.events("sbatch")) >= 2:
                multi = True
            summary = sim.results_summary()
            tag = f"variant {vi} ({var['mode']}, groups={len(var['groups'])}, max_nodes={var['max_nodes']})"
            if summary is None:
                v.append(C.viol("C03:no-results-file", f"{tag}: submission complete but results.json missing"))
                continue
            results, missing = summary["results"], summary["missing"]
            names = [j["name"] for j in core]
            if missing:
                v.append(C.viol("C03:missing-jobs", f"{tag}: fault-free run reports missing jobs {missing}"))
            if summary["dups"]:
                v.append(C.viol("C03:duplicate-result", f"{tag}: duplicate results for {summary['dups']}"))
            if sorted(results) != sorted(names):
                v.append(C.viol("C03:result-set-mismatch", f"{tag}: results for {sorted(results)}; configured {sorted(names)}"))
            rows = [parts[0] for f, parts in H.W.read_result_rows(sim.out)]
            if len(rows) != len(set(rows)):
                v.append(C.viol("C03:duplicate-row", f"{tag}: result rows on disk {sorted(rows)}"))
            got = {n: H.classify_result(r[0], r[1]) for n, r in results.items()}
            diff = {n: (got.get(n), ref[n]) for n in names if got.get(n) != ref[n]}
            if diff and not missing:
                v.append(C.viol("C03:classification-differs-from-reference",
                                f"{tag}: (got, reference) per job: {diff}"))
            rs = summary["raw"]["results_summary"]
            want = {"num_successful": sum(1 for c in got.values() if c == "successful"),
                    "num_failed": sum(1 for c in got.values() if c == "failed"),
                    "num_canceled": sum(1 for c in got.values() if c == "canceled"),
                    "num_missing": len(missing)}
            if {k: rs.get(k) for k in want} != want:
                v.append(C.viol("C03:summary-counts", f"{tag}: results_summary {rs} vs counted {want}"))
            if v and not logs:
                logs = sim.w.abridged_log(200)
            if res["sample"] is None and multi:
                res["sample"] = {"core": core, "variant": {k: var[k] for k in ("mode", "groups", "max_nodes")},
                                 "reference": ref, "log": sim.w.abridged_log(30)}
    res["classes"] = sorted(set(res["classes"]))
    res["nontrivial"] = multi and any(j["rc"] != 0 for j in core) and res["inconclusive"] is None
    if v:
        res["replay_log"] = logs
        res["sample"] = {"core": core, "reference": ref}
    return res
