"""C01 -- each job is handed to the HPC in exactly one batch and started at most once."""

from jv import hpcsim as H
from jv.props import common as C

ID = "C01"
LEVEL = "exploration"
TECHNIQUE = "Hypothesis-generated scenarios x schedules in a deterministic simulation world; invariant over the sbatch/launch history"
BUDGET = {"quick": 4000, "thorough": 48000}
RULE = (
    "case = generated scenario (DAG of 1-12 jobs in arbitrary listing order, 1-3 submission groups, batch size / "
    "time-based batching, try-add-blocked, max-nodes) x generated schedule (list of scheduling choices) x up to 3 "
    "operator commands (try-submit-jobs / show-status -n) from the login host at generated moments x batches on "
    "own or shared host names; "
    "non-trivial = >= 2 batches submitted by >= 2 different processes and >= 1 dependency edge; distinct by "
    "hash of (scenario, schedule)"
)
RULE += " Later additions (DESIGN.md 9): " + 'operator commands bound to the end of a batch and held back between two lock holds; up to 2 unusual-SLURM-state windows.'
ASSUMPTIONS = C.WORLD_ASSUMPTIONS
setup, teardown = C.setup, C.teardown


def strategy(tier):
    from hypothesis import strategies as st

    from jv import gen

    return st.fixed_dictionaries({
        "scn": gen.scenarios(),
        "schedule": gen.schedules(),
        # the operator's try-submit-jobs / show-status from the login host (the same host name as submit-jobs), forced a
        # generated number of steps into the run
        "user": st.lists(st.fixed_dictionaries({"at": st.integers(5, 300), "cmd": st.sampled_from(["try", "try", "show"])}), max_size=3),
        # batches on non-exclusive nodes may share a host name
        "shared_node_hosts": st.sampled_from([0, 0, 0, 1, 2]),
        # operator commands bound to the end of a batch, held back between two lock holds (common.late_ops)
        "late": C.late_ops(),
        # moments at which the scheduler shows a queued/running batch in a non-terminal state outside JADE's table
        "exotic": st.lists(st.fixed_dictionaries({"at": st.integers(10, 300), "steps": st.integers(20, 200),
                                                  "which": st.integers(0, 7)}), max_size=2),
    })


def run_case(case):
    scn = case["scn"]
    with H.Sim(scn, schedule=case["schedule"], shared_node_hosts=case.get("shared_node_hosts", 0),
               exotic=case.get("exotic", ())) as sim:
        import os

        for u in sorted(case.get("user", []), key=lambda x: x["at"]):
            def pred(ww, at=u["at"]):
                return ww.steps >= at and os.path.exists(os.path.join(sim.out, "submitter_groups.json"))

            def fire(ww, cmd=u["cmd"]):
                if not sim.is_complete():
                    sim.user_cmd(["try-submit-jobs", sim.out] if cmd == "try" else ["show-status", "-o", sim.out, "-n"])

            sim.w.user_events.append((u["cmd"], pred, fire, True))
        C.install_late_ops(sim, case.get("late"))
        seen, stop = set(), []

        def observer(rec):
            # a job handed to sbatch a second time settles the case: stop the world (a runaway submitter would
            # otherwise keep submitting until the step budget)
            if rec["k"] == "sbatch":
                if seen.intersection(rec["jobs"]):
                    stop.append(rec["i"])
                    sim.w.max_steps = min(sim.w.max_steps, sim.w.steps + 50)
                seen.update(rec["jobs"])

        sim.w.observers.append(observer)
        sim.submit()
        outcome = sim.drive()
        sim.w.user_events.clear()
        res = C.base_result(case, sim, outcome)
        if case.get("user"):
            res["classes"].append("operator_commands_from_login_host")
        if case.get("shared_node_hosts"):
            res["classes"].append("batches_share_host_names")
        v = res["violations"]
        placed = C.placements(sim)
        for j, b in sorted(placed.items()):
            if len(b) > 1:
                v.append(C.viol("C01:job-in-two-batches", f"job {j} was handed to sbatch in batches {b}"))
        batch_nums = [r["batch"] for r in sim.w.events("sbatch")]
        if len(batch_nums) != len(set(batch_nums)):
            v.append(C.viol("C01:batch-id-reused", f"batch numbers handed to sbatch: {batch_nums}"))
        nl = C.launches(sim)
        for j, c in sorted(nl.items()):
            if c > 1:
                v.append(C.viol("C01:job-started-twice", f"job {j} was started {c} times"))
        if outcome == "complete":
            summary = sim.results_summary()
            results = summary["results"] if summary else {}
            for j in scn["jobs"]:
                n = j["name"]
                if len(placed.get(n, [])) == 1:
                    continue
                rc_status = results.get(n)
                canceled = rc_status is not None and rc_status[1] == "canceled"
                if not placed.get(n) and canceled and nl.get(n, 0) == 0:
                    continue
                if len(placed.get(n, [])) > 1:
                    continue  # already reported
                v.append(C.viol("C01:job-neither-placed-nor-canceled",
                                f"fault-free completion but job {n}: batches={placed.get(n)} result={rc_status} "
                                f"launches={nl.get(n, 0)}"))
        sb = sim.w.events("sbatch")
        res["nontrivial"] = (
            len(sb) >= 2 and len({r["by_thread"] for r in sb}) >= 2 and any(j["blocked_by"] for j in scn["jobs"])
        )
        if res["nontrivial"] or v:
            res["sample"] = C.sample_of(case, sim)
        if v:
            res["replay_log"] = sim.w.abridged_log(200)
            res["exceptions"] = sim.exceptions()
        return res
