"""C18 -- SLURM boundary: faithful scripts, conservative status, bounded retries."""

import json
import os
import re
import shutil
import types

from hypothesis import strategies as st

from jv import hpcsim as _H  # noqa: F401  installs the simulation world's interposition before jade is imported (flow sub-case)
from jv.props import direct as D

ID = "C18"
LEVEL = "exploration"
BUDGET = {"quick": 8000, "thorough": 120000}
RULE = (
    "four generated sub-cases. script: 1-3 submission groups, each a SlurmConfig with every optional field set/unset, job "
    "name and run options, taken through the real objects (JobSubmitter.create, Cluster.create, HpcSubmitter, "
    "HpcManager.submit(dry_run=True)) -> per group the #SBATCH option map parsed from the written file must equal "
    "{account, job-name, time, output, error} + every optional field that is not None in the validated model "
    "(option names compared modulo '_'/'-'), last line 'srun <script>', and the run script written by "
    "HpcSubmitter._create_run_script must carry exactly the group's options. status: squeue outputs over the full "
    "SLURM state vocabulary (24 states + unknown tokens), arbitrary blanks/tabs/blank lines, foreign job ids -> "
    "AsyncHpcSubmitter.is_complete() through a real HpcStatusCollector may be true only if the id is absent or its "
    "state is COMPLETED/COMPLETING (raising is allowed). submit: arbitrary sbatch stdout/exit code -> Status.GOOD "
    "with that id iff exit 0 and 'Submitted batch job <digits>' present, else Status.ERROR and the batch is not "
    "counted active. retry: scripted (exit code, stdout, stderr) sequences against run_command(num_retries=n, "
    "error_strings) -> executions <= n+1, stop at first success or first listed permanent error, last code and "
    "output returned. Additionally coverage-guided campaigns (atheris/libFuzzer, counters.fuzz_*) of the squeue and "
    "sbatch text parsers with the same oracles inside the target, from an empty corpus and from a corpus seeded with "
    "tests/data/squeue_status.txt (quick: 2 x 30 000 executions, thorough: 8 x 600 000). non-trivial = script: >= 3 optional fields; status: target present in a non-finished state; "
    "submit: exit 0 with unparsable text; retry: > 1 execution; distinct by hash of the case"
)
RULE += " Later additions (DESIGN.md 9): " + 'scripts: 1-3 batches per group through the same manager object; flow (one case in twelve): whole generated submissions in the simulation world with unusual-state windows, status-query outages and operator rounds -- a recorded batch id disappears only when the simulated scheduler no longer holds the batch as PENDING/RUNNING, and after a finished round every PENDING/RUNNING batch is recorded.'
ASSUMPTIONS = [
    "the spelling of multi-word sbatch options is not fixed by the statement: '--ntasks_per_node' (as emitted) and "
    "'--ntasks-per-node' (as sbatch spells it) are both accepted; recorded as an observation in DESIGN.md",
    "'finished' = the two states JADE documents as complete (COMPLETED, COMPLETING)",
]
setup, teardown = D.setup, D.teardown

STATES = ["BOOT_FAIL", "CANCELLED", "COMPLETED", "CONFIGURING", "COMPLETING", "DEADLINE", "FAILED", "NODE_FAIL",
          "OUT_OF_MEMORY", "PENDING", "PREEMPTED", "RUNNING", "RESV_DEL_HOLD", "REQUEUE_FED", "REQUEUE_HOLD", "REQUEUED",
          "RESIZING", "REVOKED", "SIGNALING", "SPECIAL_EXIT", "STAGE_OUT", "STOPPED", "SUSPENDED", "TIMEOUT"]
BLANK = st.text(alphabet=" \t", min_size=1, max_size=6)
OPT = lambda s: st.one_of(st.none(), s)  # noqa: E731

GROUP = st.fixed_dictionaries({
    "account": st.sampled_from(["acct", "proj-1", "a_b"]),
    "walltime": st.sampled_from(["4:00:00", "0:05:00", "100:00:00"]),
    "partition": OPT(st.sampled_from(["debug", "short"])), "qos": OPT(st.just("high")), "mem": OPT(st.sampled_from(["10G", "184000", "0", 0, 92000])),
    "tmp": OPT(st.sampled_from(["1T", 0, 500])), "gres": OPT(st.sampled_from(["gpu:1", "gpu:2"])), "reservation": OPT(st.just("res_1")),
    "nodes": OPT(st.integers(1, 9)), "ntasks": OPT(st.integers(1, 9)), "ntasks_per_node": OPT(st.integers(1, 36)),
    "name": st.from_regex(r"[A-Za-z0-9_]{1,12}_batch_[0-9]{1,3}", fullmatch=True),
    "nproc": OPT(st.integers(1, 36)), "dsub": st.booleans(), "verbose": st.booleans(),
    # a submitter hands 1-3 batches of the group to the scheduler through the same manager object
    "batches": st.integers(1, 3),
})
script_cases = st.fixed_dictionaries({"kind": st.just("script"), "groups": st.lists(GROUP, min_size=1, max_size=3)})

status_cases = st.fixed_dictionaries({
    "kind": st.just("status"),
    "target": st.integers(1, 99999).map(str),
    "present": st.booleans(),
    "state": st.one_of(st.sampled_from(STATES), st.sampled_from(STATES), st.sampled_from(["completed", "Completed", "CD", "R", "PD", "UNKNOWN", "COMPLETED+", "NONE"])),
    "others": st.lists(st.tuples(st.integers(100000, 999999).map(str), st.sampled_from(STATES)), max_size=5, unique_by=lambda t: t[0]),
    "pads": st.lists(BLANK, min_size=3, max_size=3),
    "lead": st.text(alphabet=" \t", max_size=3),
    "blank_lines": st.integers(0, 2),
    "pos": st.integers(0, 5),
    "trailing_newline": st.booleans(),
})

submit_cases = st.fixed_dictionaries({
    "kind": st.just("submit"),
    "rc": st.sampled_from([0, 0, 0, 1, 127, 255]),
    "stdout": st.one_of(
        st.integers(1, 10 ** 9).map(lambda n: f"Submitted batch job {n}\n"),
        st.integers(1, 10 ** 9).map(lambda n: f"sbatch: warning: x\nSubmitted batch job {n} on cluster c1\n"),
        st.sampled_from(["", "Submitted batch job \n", "Submitted batch job abc\n", "submitted batch job 12\n", "Submitted job 12\n",
                         "sbatch: error: Batch job submission failed\n", "12345\n", "Submitted batch job -5\n"]),
        st.text(max_size=30),
    ),
    "stderr": st.text(max_size=10),
})

retry_cases = st.fixed_dictionaries({
    "kind": st.just("retry"),
    "num_retries": st.integers(0, 6),
    "seq": st.lists(st.tuples(st.sampled_from([0, 1, 1, 1, 2, 255]), st.text(alphabet="ab ", max_size=5),
                              st.sampled_from(["", "transient", "Invalid job id specified", "fatal: xyz", "socket timed out"])),
                    min_size=8, max_size=8),
    "capture": st.booleans(),
    "error_strings": st.lists(st.sampled_from(["Invalid job id specified", "fatal"]), max_size=2, unique=True),
})


@st.composite
def flow_cases(draw):
    """Whole submissions in the simulation world (E1): what JADE *does* with the scheduler's answers."""
    from jv import gen
    from jv.props import common as C

    scn = draw(gen.scenarios(min_jobs=2, max_jobs=8, max_groups=2))
    scn["max_nodes"] = draw(st.sampled_from([None, 1, 1, 2, 3]))
    return {"kind": "flow", "scn": scn, "schedule": draw(gen.schedules()),
            "exotic": draw(st.lists(st.fixed_dictionaries({"at": st.integers(10, 400), "steps": st.integers(10, 200),
                                                           "which": st.integers(0, 7)}), max_size=3)),
            "late": draw(C.late_ops()),
            # the status query may fail for one or two whole retry windows: the round aborts, it never decides "finished"
            "faults": draw(st.lists(st.fixed_dictionaries({"kind": st.just("squeue_fail_series"), "nth": st.integers(1, 8),
                                                           "len": st.sampled_from([7, 14])}), max_size=1))}


def strategy(tier):
    # the flow sub-case is ~100x dearer than the others: one in twelve cases
    return st.one_of(script_cases, status_cases, status_cases, submit_cases, retry_cases, script_cases, status_cases, status_cases,
                     submit_cases, retry_cases, status_cases, flow_cases())


def run_flow_case(case, res):
    """A batch is dropped from the recorded active ids only when it is finished or absent: after every release of the
    cluster lock the recorded hpc_job_ids are compared with the previous ones; an id that disappeared must not belong to a
    batch the simulated scheduler still holds as PENDING or RUNNING at that instant (a batch that ended after the round's
    poll is still recorded, never the other way round; in SLURM mode nothing else removes an id)."""
    import sys

    from jv import hpcsim as H
    from jv import world as W
    from jv.props import common as C

    v = res["violations"]
    H.scratch_root()
    saved = (sys.stdout, sys.stderr)
    W.install_stdio()
    try:
        with H.Sim(case["scn"], schedule=case["schedule"], snapshots=True, exotic=case.get("exotic", ()),
                   faults=[dict(f) for f in case.get("faults", [])]) as sim:
            C.install_late_ops(sim, case.get("late"))
            sim.submit()
            outcome = sim.drive()
            if outcome == "budget":
                res["inconclusive"] = "step-budget"
            prev = None
            drops = 0
            for s in sim.w.snaps:
                try:
                    ids = set(json.loads(s["files"]["job_status.json"] or "null")["hpc_job_ids"])
                except (TypeError, ValueError, KeyError):
                    prev = None
                    continue
                try:
                    holder = json.loads(s["files"]["cluster_config.json"] or "null")["submitter"]
                except (TypeError, ValueError, KeyError):
                    holder = "?"
                if holder is None and not s.get("sublock"):
                    # nobody holds the role and no round is in progress: every batch that is alive for certain is recorded
                    # (a batch reaped as "finished" right after its sbatch never makes it into the records)
                    unrecorded = sorted(set(s.get("active", [])) - ids)
                    if unrecorded:
                        v.append(D.viol("C18:live-batch-treated-as-finished|never-recorded", f"after the round ending with the lock "
                                        f"release by {s['by']} the scheduler held batch id(s) {unrecorded} pending or running "
                                        f"that are not among the recorded active ids {sorted(ids)}"))
                        break
                if prev is not None:
                    gone = prev - ids
                    drops += len(gone)
                    bad = sorted(gone & set(s.get("active", [])))
                    if bad:
                        v.append(D.viol("C18:live-batch-treated-as-finished", f"{s['by']} dropped batch id(s) {bad} from the recorded "
                                        f"active ids while the scheduler held them pending or running"))
                        break
                prev = ids
            if sim.w.events("exotic"):
                res["classes"].append("flow_batch_shown_in_unusual_state")
            if sim.w.fault_hits:
                res["classes"].append("flow_status_query_outage")
            res["classes"].append("flow_max_nodes:" + str(case["scn"]["max_nodes"]))
            res["nontrivial"] = drops >= 2
            if res["nontrivial"] or v:
                res["sample"] = {"kind": "flow", "jobs": len(case["scn"]["jobs"]), "max_nodes": case["scn"]["max_nodes"],
                                 "ids_dropped": drops, "log": sim.w.abridged_log(30)}
            if v:
                res["replay_log"] = sim.w.abridged_log(150)
    finally:
        sys.stdout, sys.stderr = saved


def _slurm_config(case):
    from jade.models import HpcConfig, SlurmConfig

    fields = {k: case[k] for k in ("account", "walltime", "partition", "qos", "mem", "tmp", "gres", "reservation", "nodes", "ntasks", "ntasks_per_node")}
    return HpcConfig(hpc_type="slurm", job_prefix="job", hpc=SlurmConfig(**fields))


def run_script_case(case, res):
    """Through the real objects: JobSubmitter.create -> Cluster.create -> HpcSubmitter; per group the run script and
    (via HpcManager.submit(dry_run=True), the path every batch takes) the submission script."""
    from pathlib import Path

    from jade.extensions.generic_command import GenericCommandConfiguration, GenericCommandParameters
    from jade.hpc.hpc_submitter import HpcSubmitter
    from jade.jobs.cluster import Cluster
    from jade.jobs.job_submitter import JobSubmitter
    from jade.models import SubmissionGroup, SubmitterParams

    v = res["violations"]
    tmp = D.fresh_dir()
    out = os.path.join(tmp, "out")
    try:
        groups = []
        for gi, g in enumerate(case["groups"]):
            hpc = _slurm_config(g)
            sp = SubmitterParams(hpc_config=hpc, num_processes=g["nproc"], distributed_submitter=g["dsub"], verbose=g["verbose"],
                                 generate_reports=False, resource_monitor_type="none")
            groups.append(SubmissionGroup(name=f"g{gi}", submitter_params=sp))
        cfg = GenericCommandConfiguration(submission_groups=[x.dict() for x in groups])
        for gi in range(len(groups)):
            cfg.add_job(GenericCommandParameters(command="true", submission_group=f"g{gi}"))
        try:
            mgr = JobSubmitter.create(cfg, out)
            cluster = Cluster.create(out, mgr.config)
            hs = HpcSubmitter(mgr.config, Path(out) / "config.json", cluster, out)
        except Exception as e:  # noqa: BLE001
            v.append(D.viol(f"C18:cannot-create-submitter|{type(e).__name__}", f"{type(e).__name__}: {str(e)[:300]}"))
            return
        nset_max = 0
        sample = []
        for gi, bi, g in [(gi, bi, g) for gi, g in enumerate(case["groups"]) for bi in range(g.get("batches", 1))]:
            group = cluster.config.submission_groups[gi]
            name = g["name"] + ("" if bi == 0 else f"x{bi}")
            run_script = os.path.join(out, f"run_{name}_{gi}.sh")
            cfgfile = os.path.join(out, f"config_batch_{gi + 1}_{bi}.json")
            try:
                hs._create_run_script(cfgfile, run_script, group)
                job_id, status = hs._hpc_mgr.submit(out, f"{name}{gi}", run_script, group.name, dry_run=True)
            except Exception as e:  # noqa: BLE001
                v.append(D.viol(f"C18:script-generation-raised|{type(e).__name__}", f"group g{gi}: {type(e).__name__}: {str(e)[:300]}"))
                continue
            if bi:
                res["classes"].append("script_nth_batch_of_group")
            filename = os.path.join(out, f"{name}{gi}.sh")
            lines = open(filename).read().splitlines()
            opts = {}
            for ln in lines:
                if ln.startswith("#SBATCH"):
                    m = re.match(r"#SBATCH --([^=\s]+)=(.*)$", ln)
                    if not m:
                        v.append(D.viol("C18:script-unparsable-sbatch-line", f"{ln!r}"))
                        continue
                    key = m.group(1).replace("_", "-")
                    if key in opts:
                        v.append(D.viol("C18:script-duplicate-option", f"option {key} twice"))
                    opts[key] = m.group(2)
            want = {"account": g["account"], "job-name": f"{name}{gi}", "time": g["walltime"],
                    "output": f"{out}/job_output_%j.o", "error": f"{out}/job_output_%j.e"}
            model = group.submitter_params.hpc_config.hpc  # validated public model (nodes may have been defaulted to 1)
            for f in ("partition", "qos", "mem", "tmp", "gres", "reservation", "nodes", "ntasks", "ntasks_per_node"):
                # a parameter the user set (also numbers, also 0: `mem = 0` asks for all the memory of the node) must be in the
                # script as given; an unset one appears only with the model's own default (nodes)
                val = g[f] if g[f] is not None else getattr(model, f)
                if val is not None:
                    want[f.replace("_", "-")] = str(val)
            if opts != want:
                missing = {k: want[k] for k in want if opts.get(k) != want[k]}
                extra = {k: opts[k] for k in opts if k not in want}
                v.append(D.viol("C18:script-options-differ", f"group g{gi}: #SBATCH options {opts}; expected {want}; wrong/missing {missing}; "
                                f"extra {extra}"))
            if not lines or lines[0] != "#!/bin/bash":
                v.append(D.viol("C18:script-shebang", f"first line {lines[:1]}"))
            body = [ln for ln in lines if ln and not ln.startswith("#")]
            if body != [f"srun {run_script}"]:
                v.append(D.viol("C18:script-does-not-run-batch-script", f"non-comment lines {body}; expected ['srun {run_script}']"))
            rl = [ln for ln in open(run_script).read().splitlines() if ln and not ln.startswith("#")]
            wantcmd = ["jade-internal", "run-jobs", cfgfile, f"--output={out}",
                       "--distributed-submitter" if g["dsub"] else "--no-distributed-submitter"]
            if g["nproc"] is not None:
                wantcmd.append(f"--num-parallel-processes-per-node={g['nproc']}")
            if g["verbose"]:
                wantcmd.append("--verbose")
            if len(rl) != 1 or rl[0].split() != wantcmd:
                v.append(D.viol("C18:run-script-options-differ", f"group g{gi} of {len(case['groups'])}: run script {rl}; expected "
                                f"{' '.join(wantcmd)}"))
            if not os.access(run_script, os.X_OK) or not os.access(filename, os.X_OK):
                v.append(D.viol("C18:script-not-executable", "generated script is not executable"))
            nset = sum(1 for f in ("partition", "qos", "mem", "tmp", "gres", "reservation", "nodes", "ntasks", "ntasks_per_node") if g[f] is not None)
            nset_max = max(nset_max, nset)
            sample.append(opts)
        res["classes"].append(f"script_groups:{len(case['groups'])}")
        res["nontrivial"] = nset_max >= 3
        res["sample"] = {"kind": "script", "options_per_group": sample}
    finally:
        shutil.rmtree(tmp, ignore_errors=True)


class _FakeCommands:
    """Scripted stand-in for jade.utils.run_command._run_command (the process boundary)."""

    def __init__(self, handler):
        import jade.utils.run_command as rc

        self.rc = rc
        self.handler = handler
        self.calls = []

    def __enter__(self):
        self.orig = self.rc._run_command
        self.orig_time = self.rc.time

        def fake(command, output, cwd, **kw):
            self.calls.append(list(command))
            code, out, err = self.handler(command, len(self.calls))
            if output is not None:
                output["stdout"] = out
                output["stderr"] = err
            return code

        self.rc._run_command = fake
        self.rc.time = types.SimpleNamespace(sleep=lambda s: None, time=self.orig_time.time)
        return self

    def __exit__(self, *a):
        self.rc._run_command = self.orig
        self.rc.time = self.orig_time
        return False


def squeue_text(case):
    rows = [(j, s) for j, s in case["others"] if j != case["target"]]
    if case["present"]:
        rows.insert(min(case["pos"], len(rows)), (case["target"], case["state"]))
    p0, p1, p2 = case["pads"]
    lines = [f"{case['lead']}{j}{p0}{s}{p1 if i % 2 else p2}" for i, (j, s) in enumerate(rows)]
    for _ in range(case["blank_lines"]):
        lines.insert(min(case["pos"], len(lines)), "")
    text = "\n".join(lines)
    if case["trailing_newline"] and text:
        text += "\n"
    return text


def run_status_case(case, res):
    from jade.hpc.hpc_manager import HpcManager
    from jade.hpc.hpc_submitter import AsyncHpcSubmitter, HpcStatusCollector
    from jade.models import HpcConfig, SlurmConfig, SubmissionGroup, SubmitterParams

    v = res["violations"]
    text = squeue_text(case)
    hpc = HpcConfig(hpc_type="slurm", hpc=SlurmConfig(account="a"))
    group = SubmissionGroup(name="g", submitter_params=SubmitterParams(hpc_config=hpc))
    mgr = HpcManager({"g": group}, "/nonexistent")
    with _FakeCommands(lambda cmd, n: (0, text, "")) as fc:
        collector = HpcStatusCollector(mgr, 10)
        sub = AsyncHpcSubmitter.create_from_id(mgr, collector, case["target"])
        raised = None
        try:
            done = sub.is_complete()
        except Exception as e:  # noqa: BLE001  conservative refusal is allowed
            raised = type(e).__name__
            done = False
        if not fc.calls or fc.calls[0][0] != "squeue":
            v.append(D.viol("C18:status-not-queried", f"commands {fc.calls[:2]}"))
    may_be_done = (not case["present"]) or case["state"] in ("COMPLETED", "COMPLETING")
    if done and not may_be_done:
        v.append(D.viol(f"C18:unfinished-batch-treated-as-finished|{case['state']}", f"squeue output {text!r}: batch {case['target']} is in state "
                        f"{case['state']} but is_complete() returned True"))
    res["classes"].append("status_raised" if raised else ("status_done" if done else "status_active"))
    res["nontrivial"] = case["present"] and case["state"] not in ("COMPLETED", "COMPLETING")
    res["sample"] = {"kind": "status", "squeue": text, "target": case["target"], "is_complete": done, "raised": raised}


def run_submit_case(case, res):
    from jade.enums import Status
    from jade.hpc.hpc_manager import HpcManager
    from jade.hpc.hpc_submitter import AsyncHpcSubmitter, HpcStatusCollector
    from jade.jobs.job_queue import JobQueue
    from jade.models import HpcConfig, SlurmConfig, SubmissionGroup, SubmitterParams

    v = res["violations"]
    tmp = D.fresh_dir()
    try:
        hpc = HpcConfig(hpc_type="slurm", hpc=SlurmConfig(account="a"))
        group = SubmissionGroup(name="g", submitter_params=SubmitterParams(hpc_config=hpc))
        mgr = HpcManager({"g": group}, tmp)
        m = re.search(r"Submitted batch job (\d+)", case["stdout"])
        want_good = case["rc"] == 0 and m is not None
        with _FakeCommands(lambda cmd, n: (case["rc"], case["stdout"], case["stderr"])) as fc:
            collector = HpcStatusCollector(mgr, 10)
            sub = AsyncHpcSubmitter(mgr, collector, os.path.join(tmp, "run_batch_1.sh"), "job_batch_1", group, tmp)
            queue = JobQueue(5, poll_interval=1)
            queue.submit(sub)
            n_sbatch = sum(1 for c in fc.calls if c[0] == "sbatch")
        outstanding = [x.name for x in queue.outstanding_jobs]
        if want_good:
            if outstanding != ["job_batch_1"] or sub.job_id != m.group(1):
                v.append(D.viol("C18:good-submission-not-recognised", f"sbatch rc=0 stdout={case['stdout']!r}: outstanding={outstanding} "
                                f"job_id={sub.job_id}"))
            if n_sbatch != 1:
                v.append(D.viol("C18:successful-sbatch-repeated", f"sbatch executed {n_sbatch} times after a success"))
        else:
            if outstanding:
                v.append(D.viol("C18:failed-submission-treated-as-active", f"sbatch rc={case['rc']} stdout={case['stdout']!r}: the batch is "
                                f"counted as active with job id {sub.job_id!r}"))
            if n_sbatch > 7:
                v.append(D.viol("C18:too-many-sbatch-retries", f"sbatch executed {n_sbatch} times (6 retries configured)"))
            if case["rc"] == 0 and n_sbatch != 1:
                v.append(D.viol("C18:successful-sbatch-repeated", f"sbatch exit 0 (unparsable) executed {n_sbatch} times"))
        res["classes"].append("submit_good" if want_good else "submit_bad")
        res["nontrivial"] = case["rc"] == 0 and m is None
        res["sample"] = {"kind": "submit", "rc": case["rc"], "stdout": case["stdout"], "good": want_good}
        _ = Status
    finally:
        shutil.rmtree(tmp, ignore_errors=True)


def run_retry_case(case, res):
    from jade.utils.run_command import run_command

    v = res["violations"]
    n = case["num_retries"]
    seq = case["seq"]
    errs = case["error_strings"] if case["capture"] else []
    with _FakeCommands(lambda cmd, k: seq[min(k, len(seq)) - 1]) as fc:
        output = {} if case["capture"] else None
        ret = run_command("cmdx arg1", output=output, num_retries=n, retry_delay_s=0.5, error_strings=errs or None)
        runs = len(fc.calls)
    # expectation
    want_runs = None
    for k in range(1, n + 2):
        code, out, err = seq[k - 1]
        if code == 0:
            want_runs = k
            break
        if n > 0 and errs and any(e in err for e in errs):
            want_runs = k
            break
    if want_runs is None:
        want_runs = n + 1
    code, out, err = seq[want_runs - 1]
    if runs > n + 1:
        v.append(D.viol("C18:retried-too-often", f"num_retries={n}: {runs} executions"))
    if runs != want_runs:
        v.append(D.viol("C18:retry-count-differs", f"num_retries={n} errors={errs} sequence={seq[:n + 1]}: {runs} executions, expected {want_runs}"))
    if ret != code:
        v.append(D.viol("C18:retry-return-code", f"returned {ret}, last execution's code {code}"))
    if case["capture"] and runs == want_runs and (output.get("stdout") != out or output.get("stderr") != err):
        v.append(D.viol("C18:retry-output", f"output {output}; last execution's ({out!r}, {err!r})"))
    if any(c != ["cmdx", "arg1"] for c in fc.calls):
        v.append(D.viol("C18:retry-command-changed", f"{fc.calls[:3]}"))
    res["nontrivial"] = runs > 1
    res["sample"] = {"kind": "retry", "num_retries": n, "codes": [s[0] for s in seq[:n + 1]], "errors": errs, "executions": runs}


FUZZ_RUNS = {"quick": 30000, "thorough": 600000}
FUZZ_SHARDS = {"quick": 2, "thorough": 8}


def post_phase(tier, shard, nshards, seed, stats):
    """E5: coverage-guided campaigns (atheris/libFuzzer) of the squeue / sbatch text parsers with the same oracles inside
    the target; even shards start from an empty corpus, odd shards from a corpus seeded with tests/data/squeue_status.txt."""
    import subprocess
    import sys

    if shard >= FUZZ_SHARDS[tier]:
        return None
    try:
        import atheris  # noqa: F401
    except ImportError:
        stats.notes["fuzz_skipped_no_atheris"] = stats.notes.get("fuzz_skipped_no_atheris", 0) + 1
        return None
    out = os.path.join(D.scratch(), f"fuzz_{shard}.json")
    kind = "seeded" if shard % 2 else "empty"
    cmd = [sys.executable, "-B", "-m", "jv.fuzz", str(FUZZ_RUNS[tier]), str(seed % (2 ** 31 - 1) + 1), kind, out]
    try:
        subprocess.run(cmd, stdout=subprocess.DEVNULL, stderr=subprocess.DEVNULL, timeout=3600)
    except subprocess.TimeoutExpired:
        stats.notes["fuzz_timeouts"] = stats.notes.get("fuzz_timeouts", 0) + 1
    try:
        data = json.load(open(out))
    except (OSError, ValueError):
        stats.notes["fuzz_no_output"] = stats.notes.get("fuzz_no_output", 0) + 1
        return None
    for k, val in (data.get("counts") or {}).items():
        stats.notes["fuzz_" + k] = stats.notes.get("fuzz_" + k, 0) + val
    stats.notes["fuzz_campaigns_" + kind] = stats.notes.get("fuzz_campaigns_" + kind, 0) + 1
    if data.get("case"):
        return {"case": data["case"], "phase": f"atheris({kind} corpus)"}
    return None


def run_fuzz_case(case, res):
    from jv import fuzz

    msg = fuzz.check_status(case["text"], case["target"]) if case["kind"] == "fuzz_status" else fuzz.check_submit(case["text"], case["rc"])
    if msg:
        res["violations"].append(D.viol("C18:unfinished-batch-treated-as-finished|fuzz" if case["kind"] == "fuzz_status"
                                        else "C18:submit-response-misread|fuzz", msg))
    res["sample"] = dict(case)


def run_case(case):
    res = D.result()
    res["classes"].append("kind:" + case["kind"])
    if case["kind"].startswith("fuzz_"):
        run_fuzz_case(case, res)
        return res
    {"script": run_script_case, "status": run_status_case, "submit": run_submit_case, "retry": run_retry_case,
     "flow": run_flow_case}[case["kind"]](case, res)
    if not res["nontrivial"] and not res["violations"]:
        res["sample"] = None
    return res
