"""C20 -- reports are faithful: events lossless, statistics and tallies correct."""

import datetime
import json
import logging
import os
import shutil
import types

from hypothesis import strategies as st

from jv import gen
from jv import hpcsim as H  # installs the simulation world's interposition before jade is imported (used by the flow sub-case)
from jv import world as W
from jv.props import direct as D

ID = "C20"
LEVEL = "exploration"
BUDGET = {"quick": 3000, "thorough": 48000}
RULE = (
    "four generated sub-cases. flow: a whole generated submission (1-6 jobs, reports on/off, operator commands, optional "
    "resubmission) runs in the simulation world with event logging switched on and the event logger's configuration kept "
    "per virtual process; every record that reached an *events.log file (observed at logging.FileHandler.emit) must appear "
    "exactly once in EventsSummary(output), ordered by time, and consolidating again must not change it. events: a multiset of structured events (JADE's event names and generated ones, "
    "nested JSON data, plain and error events, timestamps with ties / second boundaries / zero microseconds) written "
    "through the real setup_event_logging + log_event into 1-5 per-process *events.log files plus per-job events.log "
    "files merged by JobRunner._aggregate_events -> EventsSummary(output).list_events(name) must equal the written "
    "multiset field-for-field for every name, be ordered by timestamp, and a second EventsSummary (plain and "
    "preload=True) must return the same lists with the files under events/ byte-identical. stats: per statistic a "
    "sample sequence (increasing, decreasing, constant, zero, mixed; floats >= 0) fed to "
    "ResourceMonitorAggregator.update_resource_stats through a scripted monitor -> the minimum / maximum / average "
    "in stats/<name>_resource_stats.json must equal min / max / mean of the samples taken (1e-9 relative), also for "
    "per-process statistics; and the periodic path (ResourceMonitorLogger events -> EventsSummary -> "
    "CpuStatsViewer.get_stats_summary). tallies: generated result sets (finished rc >= 0, canceled rc != 0) plus "
    "missing names through JobSubmitter.write_results_summary and ResultsSummary.show_results -> the four counts "
    "partition the jobs and equal the reference classes. non-trivial = flow: >= 2 event files and >= 4 events; events: >= 2 files and a timestamp tie; "
    "stats: a non-decreasing sequence of length >= 2; tallies: >= 1 job in >= 3 classes; distinct by hash of the case"
)
RULE += " Later additions (DESIGN.md 9): " + "flow also runs with the node resource monitor periodic / aggregation and with job processes that log structured events of their own through a held-open handle (chain job file -> node file -> summary; K2 for records written after the finishing submitter read the files); stats also logs per-process samples on the periodic path and compares the consolidated table row by row and ProcessStatsViewer's summary; the events sub-case aggregates through a real JobRunner. Round 8: a quarter of the flow runs are in local mode; every record handed to the _jade_event logger (observed at logging.Logger.callHandlers) by a process that has already written to an event file must reach an event file."
ASSUMPTIONS = [
    "resource statistics are non-negative (utilisation percentages, byte and packet counts)",
    "events carry the timestamp format JADE itself writes (str(datetime))",
]
setup = D.setup


def teardown():
    D.teardown()
    H.cleanup_scratch()


JSONV = st.recursive(st.none() | st.booleans() | st.integers(-5, 5) | st.text(max_size=5),
                     lambda c: st.lists(c, max_size=3) | st.dictionaries(st.text(max_size=4), c, max_size=3), max_leaves=5)
TS = st.tuples(st.integers(0, 3), st.sampled_from([0, 0, 250000, 500000, 999999, 1, 100000])).map(
    lambda t: str(datetime.datetime(2024, 1, 1, 0, 0, t[0], t[1])))
EVENT = st.fixed_dictionaries({
    "file": st.integers(0, 4),
    "name": st.sampled_from(["hpc_submit", "hpc_job_assigned", "bytes_consumed", "my_event", "log_error", "submit_completed", "x.y-z"]),
    "ts": TS,
    "source": st.sampled_from(["submitter", "job1", "batch_1"]),
    "category": st.sampled_from(["HPC", "Error", "ResourceUtilization"]),
    "message": st.text(max_size=8),
    "data": st.dictionaries(st.sampled_from(["x", "y", "job_id", "bytes_consumed", "error"]), JSONV, max_size=3),
    "error_class": st.booleans(),
})
event_cases = st.fixed_dictionaries({
    "kind": st.just("events"),
    "events": st.lists(EVENT, max_size=14),
    "job_events": st.lists(st.tuples(st.integers(0, 2), EVENT), max_size=5),
})

SEQ = st.one_of(
    st.lists(st.floats(min_value=0, max_value=1e6, allow_nan=False, width=32), min_size=1, max_size=8),
    st.lists(st.integers(0, 1000), min_size=1, max_size=8).map(sorted),
    st.lists(st.integers(0, 1000), min_size=1, max_size=8).map(lambda x: sorted(x, reverse=True)),
    st.tuples(st.integers(0, 100), st.integers(1, 6)).map(lambda t: [t[0]] * t[1]),
    st.integers(1, 6).map(lambda n: [0] * n),
)
stats_cases = st.fixed_dictionaries({
    "kind": st.just("stats"),
    "n": st.integers(1, 8),
    "cpu": st.fixed_dictionaries({"cpu_percent": SEQ, "user": SEQ}),
    "memory": st.fixed_dictionaries({"percent": SEQ, "available": SEQ}),
    "with_disk": st.booleans(),
    "disk": st.fixed_dictionaries({"read_bytes": SEQ}),
    "process": st.one_of(st.none(), st.dictionaries(st.sampled_from(["jobA", "jobB"]), st.fixed_dictionaries({"rss": SEQ, "cpu_percent": SEQ}),
                                                       min_size=1, max_size=2)),
    "first": st.floats(min_value=0, max_value=1e6, allow_nan=False, width=32),
    "periodic": st.booleans(),
    # in which of the n intervals each job's process is alive (jobs start and end at different times)
    "presence": st.lists(st.lists(st.booleans(), min_size=8, max_size=8), min_size=2, max_size=2),
})

RESULT = st.tuples(st.sampled_from(["finished", "finished", "canceled"]), st.sampled_from([0, 0, 1, 2, 255]))
tally_cases = st.fixed_dictionaries({
    "kind": st.just("tallies"),
    "results": st.lists(RESULT, max_size=10),
    "missing": st.integers(0, 3),
})


@st.composite
def flow_cases(draw):
    scn = draw(st.one_of(gen.scenarios(min_jobs=1, max_jobs=6, max_groups=2), gen.scenarios(min_jobs=1, max_jobs=6, max_groups=2),
                         gen.scenarios(min_jobs=1, max_jobs=6, max_groups=2),
                         # local mode: the runner works inside the submit-jobs process
                         gen.scenarios(min_jobs=1, max_jobs=6, max_groups=1, mode="local")))
    # node-level resource monitoring with the real psutil-backed monitor: 'periodic' logs cpu/memory events (kept as
    # Parquet files in the summary), 'aggregation' keeps running statistics
    scn["monitor"] = draw(st.sampled_from(["none", "none", "periodic", "aggregation"]))
    return {"kind": "flow", "scn": scn, "job_events": draw(st.booleans()), "schedule": draw(gen.schedules(120)),
            "resubmit": draw(st.sampled_from([False, False, True])),
            "user": draw(st.lists(st.fixed_dictionaries({"at": st.integers(10, 200), "cmd": st.sampled_from(["try", "show"])}), max_size=2))}


def strategy(tier):
    return st.one_of(event_cases, event_cases, stats_cases, stats_cases, tally_cases, flow_cases())


# ------------------------------------------------------------------------------------------ events


def run_events(case, res):
    from jade.events import EventsSummary, StructuredErrorLogEvent, StructuredLogEvent
    from jade.loggers import close_event_logging, log_event, setup_event_logging

    v = res["violations"]
    out = D.fresh_dir()
    logging.disable(logging.NOTSET)
    try:
        written = {}

        def make(e):
            cls = StructuredLogEvent
            kw = dict(e["data"])
            if e["error_class"]:
                cls = StructuredErrorLogEvent
                kw.setdefault("exception", "ValueError")
            ev = cls(source=e["source"], category=e["category"], name=e["name"], message=e["message"], timestamp=e["ts"], **kw)
            return ev

        files = sorted({e["file"] for e in case["events"]})
        for fi in files:
            setup_event_logging(os.path.join(out, f"run_jobs_batch_{fi}_0_events.log" if fi else "submit_jobs_events.log"), mode="a")
            for e in case["events"]:
                if e["file"] == fi:
                    ev = make(e)
                    log_event(ev)
                    written.setdefault(e["name"], []).append(json.loads(str(ev)))
            close_event_logging()
        # per-job events.log files, merged the way a node does at the end of its batch
        if case["job_events"]:
            from jade.jobs.job_runner import JobRunner

            names = sorted({f"job{j}" for j, _ in case["job_events"]})
            for jn in names:
                os.makedirs(os.path.join(out, "job-outputs", jn), exist_ok=True)
                with open(os.path.join(out, "job-outputs", jn, "events.log"), "a") as f:
                    for j, e in case["job_events"]:
                        if f"job{j}" == jn:
                            ev = make(e)
                            f.write(str(ev) + "\n")
                            written.setdefault(e["name"], []).append(json.loads(str(ev)))
            # a real runner object of a batch holding these jobs (and one that wrote no events), built the way run-jobs does
            from jade.extensions.generic_command import GenericCommandConfiguration, GenericCommandParameters
            from jade.models import HpcConfig, SlurmConfig, SubmissionGroup, SubmitterParams

            sp = SubmitterParams(hpc_config=HpcConfig(hpc_type="slurm", hpc=SlurmConfig(account="a")), poll_interval=0,
                                 resource_monitor_type="none", resource_monitor_interval=None)
            cfg = GenericCommandConfiguration(submission_groups=[SubmissionGroup(name="g", submitter_params=sp).dict()])
            for jn in names + ["job_without_events"]:
                cfg.add_job(GenericCommandParameters(name=jn, command="true", submission_group="g"))
            saved_env = dict(os.environ)
            os.environ.update(SLURM_JOB_ID="77", SLURM_NODEID="0", SLURM_CPUS_ON_NODE="1", LOCAL_SCRATCH=out)
            try:
                runner = JobRunner(cfg, out, batch_id=9)
                runner._aggregate_events()
            except Exception as e:  # noqa: BLE001
                v.append(D.viol(f"C20:event-aggregation-raised|{type(e).__name__}", f"{type(e).__name__}: {str(e)[:200]}"))
            finally:
                os.environ.clear()
                os.environ.update(saved_env)
                logging.getLogger("_jade_event").handlers.clear()
            for jn in names:
                if os.path.exists(os.path.join(out, "job-outputs", jn, "events.log")):
                    v.append(D.viol("C20:job-event-file-not-merged", f"{jn}/events.log still exists after aggregation"))
        logging.getLogger("_jade_event").handlers.clear()
        s1 = EventsSummary(out)
        key = lambda d: json.dumps(d, sort_keys=True)  # noqa: E731
        lists1 = {}
        for name, w in written.items():
            got = [json.loads(str(e)) for e in s1.list_events(name)]
            lists1[name] = got
            if sorted(map(key, got)) != sorted(map(key, w)):
                lost = [x for x in w if key(x) not in set(map(key, got))]
                v.append(D.viol("C20:events-differ" + ("|lost" if len(got) < len(w) else "|changed-or-duplicated"),
                                f"event name {name}: wrote {len(w)}, summary has {len(got)}; e.g. missing/changed {lost[:2]}"))
            ts = [g["timestamp"] for g in got]
            if ts != sorted(ts):
                v.append(D.viol("C20:events-not-ordered-by-time", f"event name {name}: timestamps {ts}"))
        unknown = [n for n in ("never_written_event",) if s1.list_events(n)]
        if unknown:
            v.append(D.viol("C20:events-invented", f"{unknown}"))
        edir = os.path.join(out, "events")
        snap = {p: open(os.path.join(edir, p), "rb").read() for p in sorted(os.listdir(edir))} if os.path.isdir(edir) else {}
        for label, s2 in (("second", EventsSummary(out)), ("preload", EventsSummary(out, preload=True))):
            for name in written:
                again = [json.loads(str(e)) for e in s2.list_events(name)]
                if again != lists1[name]:
                    v.append(D.viol(f"C20:consolidating-again-changes-events|{label}", f"event name {name}: first {len(lists1[name])} "
                                    f"events, {label} read {len(again)} / different order or content"))
        snap2 = {p: open(os.path.join(edir, p), "rb").read() for p in sorted(os.listdir(edir))} if os.path.isdir(edir) else {}
        if snap != snap2:
            v.append(D.viol("C20:consolidating-again-rewrites-files", f"files under events/ changed: {sorted(set(snap) ^ set(snap2))}"))
        nfiles = len(files) + (1 if case["job_events"] else 0)
        all_ts = [e["ts"] for e in case["events"]] + [e["ts"] for _, e in case["job_events"]]
        res["nontrivial"] = nfiles >= 2 and len(all_ts) != len(set(all_ts))
        res["classes"].append(f"event_files:{min(nfiles, 3)}{'+' if nfiles > 3 else ''}")
        if res["nontrivial"] or v:
            res["sample"] = {"kind": "events", "files": nfiles, "written": {k: len(x) for k, x in written.items()}, "timestamps": sorted(all_ts)[:8]}
    finally:
        logging.getLogger("_jade_event").handlers.clear()
        logging.disable(logging.CRITICAL)
        shutil.rmtree(out, ignore_errors=True)


# ------------------------------------------------------------------------------------------ statistics


class FakeMonitor:
    """Scripted stand-in for jade.resource_monitor.ResourceMonitor (the psutil boundary)."""

    script = None

    def __init__(self, name):
        self.name = name
        self.k = {"cpu": 0, "memory": 0, "disk": 0, "proc": 0}

    def _next(self, kind):
        sc = FakeMonitor.script
        i = self.k[kind]
        self.k[kind] += 1
        return {stat: float(seq[i]) if isinstance(seq[i], float) else seq[i] for stat, seq in sc[kind].items()}

    def get_cpu_stats(self):
        return self._next("cpu")

    def get_memory_stats(self):
        return self._next("memory")

    def get_disk_stats(self):
        return self._next("disk")

    def get_network_stats(self):
        return {}

    def get_process_stats(self, pid, include_children=True, recurse_children=False):
        sc = FakeMonitor.script["process"]
        name, i = pid
        if name not in sc or i is None:
            return None, []  # the process is not alive in this interval
        return {stat: seq[i] for stat, seq in sc[name].items()}, []

    def clear_stale_processes(self, cur):
        pass


def _pad(seq, n, first):
    """Sequence of exactly n counted samples, preceded by the uncounted sample the constructor takes."""
    s = list(seq)
    while len(s) < n:
        s.append(s[-1])
    return [first] + s[:n]


def run_stats(case, res):
    import jade.resource_monitor as rm
    from jade.models.submitter_params import ResourceMonitorStats

    v = res["violations"]
    out = D.fresh_dir()
    n = case["n"]
    orig = rm.ResourceMonitor
    rm.ResourceMonitor = FakeMonitor
    try:
        script = {"cpu": {k: _pad(s, n, case["first"]) for k, s in case["cpu"].items()},
                  "memory": {k: _pad(s, n, case["first"]) for k, s in case["memory"].items()},
                  "disk": {k: _pad(s, n, case["first"]) for k, s in case["disk"].items()},
                  "process": {p: {k: _pad(s, n, case["first"])[1:] for k, s in d.items()} for p, d in (case["process"] or {}).items()}}
        FakeMonitor.script = script
        stats = ResourceMonitorStats(cpu=True, memory=True, disk=case["with_disk"], network=False, process=case["process"] is not None)
        os.makedirs(os.path.join(out, "stats"))
        agg = rm.ResourceMonitorAggregator("resource_monitor_batch_1_0", stats)
        procs = sorted(case["process"] or {})
        alive = {}
        for pi, pname in enumerate(procs):
            mask = list(case["presence"][pi % 2][:n])
            if not any(mask):
                mask[0] = True
            alive[pname] = mask
        for i in range(n):
            agg.update_resource_stats(ids={p: (p, i if alive[p][i] else None) for p in procs})
        agg.finalize(out)
        data = json.load(open(os.path.join(out, "stats", "resource_monitor_batch_1_0_resource_stats.json")))
        by_type = {(d["type"], d.get("name")): d for d in data}
        nondecreasing = False

        def check(label, entry, stat, samples):
            nonlocal nondecreasing
            want = {"minimum": min(samples), "maximum": max(samples), "average": sum(samples) / len(samples)}
            if len(samples) >= 2 and all(a <= b for a, b in zip(samples, samples[1:])):
                nondecreasing = True
            for k, w in want.items():
                got = entry.get(k, {}).get(stat)
                if got is None or abs(got - w) > 1e-9 * max(1.0, abs(w)):
                    shape = "nondecreasing" if all(a <= b for a, b in zip(samples, samples[1:])) else "other"
                    v.append(D.viol(f"C20:statistic-wrong|{k}|{shape}", f"{label} {stat}: samples {samples} -> reported {k}={got}, true {w}"))

        kinds = [("cpu", "CPU"), ("memory", "Memory")] + ([("disk", "Disk")] if case["with_disk"] else [])
        for kind, label in kinds:
            entry = None
            for (t, nm), d in by_type.items():
                if t.lower().startswith(label.lower()) and nm is None:
                    entry = d
            if entry is None:
                v.append(D.viol("C20:statistic-missing", f"no {label} entry in the stats file: types {[k for k in by_type]}"))
                continue
            for stat, seq in script[kind].items():
                check(label, entry, stat, seq[1:])
        for pname, d in (case["process"] or {}).items():
            entry = None
            for (t, nm), dd in by_type.items():
                if nm == pname:
                    entry = dd
            if entry is None:
                v.append(D.viol("C20:process-statistic-missing", f"no entry for process {pname}"))
                continue
            taken = [i for i in range(n) if alive[pname][i]]
            if entry.get("samples") != len(taken):
                v.append(D.viol("C20:process-sample-count", f"{pname}: samples={entry.get('samples')} expected {len(taken)}"))
            if len(taken) < n:
                res["classes"].append("process_not_alive_in_every_interval")
            for stat, seq in script["process"][pname].items():
                check(f"process {pname} (alive in intervals {taken} of {n})", entry, stat, [seq[i] for i in taken])
        # periodic path
        if case["periodic"]:
            from jade.events import EventsSummary
            from jade.loggers import close_event_logging, setup_event_logging

            logging.disable(logging.NOTSET)
            try:
                FakeMonitor.script = script
                lg = rm.ResourceMonitorLogger("resource_monitor_batch_2_0", stats)
                lg._monitor.k["cpu"] = 1  # skip the leading (uncounted) sample
                setup_event_logging(os.path.join(out, "run_jobs_batch_2_0_events.log"), mode="a")
                for i in range(n):
                    lg.log_cpu_stats()
                    if procs:
                        # the per-process samples of this interval, one event holding one record per live process
                        lg.log_process_stats({p: (p, i if alive[p][i] else None) for p in procs})
                close_event_logging()
                logging.getLogger("_jade_event").handlers.clear()
                summary = EventsSummary(out)
                summ = rm.CpuStatsViewer(summary).get_stats_summary()
                if len(summ) != 1:
                    v.append(D.viol("C20:periodic-summary-missing", f"{summ}"))
                else:
                    for stat, seq in script["cpu"].items():
                        check("periodic CPU", summ[0], stat, seq[1:])
                if procs:
                    # consolidated table: exactly one row per (process, interval in which it was alive), fields intact
                    df = summary.get_dataframe("process_stats")
                    stats_names = sorted(next(iter(script["process"].values())))
                    got_rows = sorted((str(r["name"]),) + tuple(float(r[k]) for k in stats_names) for _, r in df.iterrows()) \
                        if not df.empty else []
                    want_rows = sorted((p,) + tuple(float(script["process"][p][k][i]) for k in stats_names)
                                       for p in procs for i in range(n) if alive[p][i])
                    if got_rows != want_rows:
                        lost = [r for r in want_rows if r not in got_rows]
                        v.append(D.viol("C20:periodic-process-rows-differ", f"{len(want_rows)} per-process samples were logged, the "
                                        f"consolidated table has {len(got_rows)} rows; e.g. not in the table: {lost[:2]}; table starts "
                                        f"{got_rows[:2]} (columns name, {stats_names})"))
                    psumm = {e["name"]: e for e in rm.ProcessStatsViewer(summary).get_stats_summary()}
                    for pname in procs:
                        taken = [i for i in range(n) if alive[pname][i]]
                        if pname not in psumm:
                            v.append(D.viol("C20:periodic-process-summary-missing", f"no periodic summary for process {pname}: {sorted(psumm)}"))
                            continue
                        for stat, seq in script["process"][pname].items():
                            check(f"periodic process {pname}", psumm[pname], stat, [seq[i] for i in taken])
                    if len(procs) >= 2:
                        res["classes"].append("periodic_path_several_processes")
            finally:
                logging.getLogger("_jade_event").handlers.clear()
                logging.disable(logging.CRITICAL)
            res["classes"].append("periodic_path")
        res["nontrivial"] = nondecreasing
        if res["nontrivial"] or v:
            res["sample"] = {"kind": "stats", "n": n, "cpu_percent": script["cpu"]["cpu_percent"][1:], "process": sorted(case["process"] or {})}
    finally:
        rm.ResourceMonitor = orig
        shutil.rmtree(out, ignore_errors=True)


# ------------------------------------------------------------------------------------------ tallies


def run_tallies(case, res):
    import contextlib
    import io

    from jade.jobs.job_submitter import JobSubmitter
    from jade.result import Result, ResultsSummary

    v = res["violations"]
    out = D.fresh_dir()
    try:
        results = [Result(f"r{i}", rc if not (st_ == "canceled" and rc == 0) else 1, st_, 1.5 * i, completion_time=1.7e9 + i, hpc_job_id="5")
                   for i, (st_, rc) in enumerate(case["results"])]
        missing = [f"m{i}" for i in range(case["missing"])]
        want = {"num_successful": sum(1 for r in results if r.status == "finished" and r.return_code == 0),
                "num_failed": sum(1 for r in results if r.status == "finished" and r.return_code != 0),
                "num_canceled": sum(1 for r in results if r.status == "canceled"),
                "num_missing": len(missing)}
        stub = types.SimpleNamespace(_results=results, _output=out)
        stub._build_results = types.MethodType(JobSubmitter._build_results, stub)
        JobSubmitter.write_results_summary(stub, "results.json", missing)
        data = json.load(open(os.path.join(out, "results.json")))
        if data["results_summary"] != want:
            v.append(D.viol("C20:summary-counts-differ", f"results_summary {data['results_summary']}; reference {want}"))
        if sum(data["results_summary"].values()) != len(results) + len(missing):
            v.append(D.viol("C20:summary-counts-do-not-partition", f"{data['results_summary']} for {len(results)} results + {len(missing)} missing"))
        if sorted(data["missing_jobs"]) != sorted(missing) or sorted(r["name"] for r in data["results"]) != sorted(r.name for r in results):
            v.append(D.viol("C20:summary-lists-differ", "results / missing lists differ from what was passed"))
        buf = io.StringIO()
        with contextlib.redirect_stdout(buf):
            ResultsSummary(out).show_results()
        text = buf.getvalue()
        shown = {}
        for label, k in (("Num successful", "num_successful"), ("Num failed", "num_failed"), ("Num canceled", "num_canceled"), ("Num missing", "num_missing")):
            for ln in text.splitlines():
                if ln.startswith(label + ":"):
                    shown[k] = int(ln.split(":")[1])
        if shown != want:
            v.append(D.viol("C20:show-results-counts-differ", f"show_results printed {shown}; reference {want}"))
        total = [int(ln.split(":")[1]) for ln in text.splitlines() if ln.startswith("Total:")]
        if total != [len(results) + len(missing)]:
            v.append(D.viol("C20:show-results-total", f"Total {total}; expected {len(results) + len(missing)}"))
        rs = ResultsSummary(out)
        bt = rs.get_results_by_type()
        got = {"num_successful": len(bt["successful"]), "num_failed": len(bt["failed"]), "num_canceled": len(bt["canceled"])}
        if got != {k: want[k] for k in got}:
            v.append(D.viol("C20:results-by-type-differ", f"{got}"))
        res["nontrivial"] = sum(1 for x in want.values() if x) >= 3
        if res["nontrivial"] or v:
            res["sample"] = {"kind": "tallies", "reference": want}
    finally:
        shutil.rmtree(out, ignore_errors=True)


# ------------------------------------------------------------------------------------------ events in real flows


def run_flow(case, res):
    """A whole generated submission in the simulation world with event logging on: every record that reached an
    *events.log file (observed at logging.FileHandler.emit, per virtual process) must be in the consolidated summary."""
    import sys

    from jade.events import EventsSummary

    v = res["violations"]
    scn = case["scn"]
    H.scratch_root()
    saved = (sys.stdout, sys.stderr)
    W.install_stdio()
    try:
        with H.Sim(scn, schedule=case["schedule"], event_logging=True) as sim:
            w = sim.w
            if case.get("job_events"):
                from jade.events import StructuredLogEvent

                # the (fake) job processes log structured events of their own, as extensions' jobs do
                w.job_event_factory = lambda job, phase: str(StructuredLogEvent(
                    source=job.name, category="JobProgress", name="job_progress", message=f"{job.name} {phase}", phase=phase))
                res["classes"].append("flow_job_events")
            for u in sorted(case.get("user", []), key=lambda x: x["at"]):
                def pred(ww, at=u["at"]):
                    return ww.steps >= at and os.path.exists(os.path.join(sim.out, "submitter_groups.json"))

                def fire(ww, cmd=u["cmd"]):
                    if not sim.is_complete() and scn["mode"] == "hpc":
                        sim.user_cmd(["try-submit-jobs", sim.out] if cmd == "try" else ["show-status", "-o", sim.out, "-n"])

                w.user_events.append((u["cmd"], pred, fire, True))
            sim.submit()
            outcome = sim.drive()
            w.user_events.clear()
            if outcome == "complete" and case["resubmit"] and scn["mode"] == "hpc":
                sim.user_cmd(["resubmit-jobs", sim.out, "--successful"], name="resubmit")
                sim.recovery_rounds = 0
                outcome = sim.drive()
                res["classes"].append("flow_resubmitted")
            if outcome != "complete":
                res["inconclusive"] = "flow-" + outcome.split(":")[0]
                return
            written = {}
            files = set()
            late = {}
            never_merged = []
            if scn["mode"] == "local":
                res["classes"].append("flow_local_mode")
            # an event handed to the event logger by a process that has event logging set up (it wrote a record before)
            # reaches an event file: nothing is dropped between log_event() and the file
            first_written = {}
            texts_by_proc = {}
            for fname, text, by, seq in w.events_written:
                first_written.setdefault(by, seq)
                texts_by_proc.setdefault(by, []).append(text)
            dropped = []
            for text, by, seq, nh in w.events_logged:
                if by in first_written and seq > first_written[by]:
                    pool = texts_by_proc[by]
                    if text in pool:
                        pool.remove(text)
                    else:
                        dropped.append((by, text[:160], nh))
            if dropped:
                by, text, nh = dropped[0]
                v.append(D.viol(f"C20:event-dropped-before-reaching-a-file|writer={by.split(':')[-1]}",
                                f"{len(dropped)} event(s) handed to the event logger never reached an event file, e.g. by {by} "
                                f"(logger had {nh} handler(s)): {text}"))
            # reads of node / submitter event files = consolidations (reads of job-outputs/*/events.log are node-level merges)
            node_reads = [r for r in w.event_file_reads if "/job-outputs/" not in r[0]]
            for fname, text, by, seq in w.events_written:
                if not os.path.realpath(fname).startswith(os.path.realpath(sim.out) + os.sep):
                    continue
                try:
                    rec = json.loads(text)
                except ValueError:
                    v.append(D.viol("C20:event-record-not-json", f"{os.path.basename(fname)}: {text[:100]!r}"))
                    continue
                apath = os.path.abspath(fname)
                if by.endswith(":job"):
                    # an event of a job process, in job-outputs/<job>/events.log: its batch's run-jobs merges that file into
                    # its node file at the end of the batch (first read of the file after the record was written) ...
                    merges = sorted((rs, rp) for rf, rs, rp in w.event_file_reads if rf == apath and rs > seq)
                    if not merges:
                        never_merged.append(rec)
                        continue
                    ms, mp = merges[0]
                    node_files = {af for af, _, ap in w.event_file_appends if ap == mp and os.path.basename(af).startswith("run_jobs_batch")}
                    # ... and a consolidation has to read that node file afterwards
                    if node_reads and not any(rf in node_files and rs > ms for rf, rs, _ in node_reads):
                        late.setdefault(rec["name"], []).append((rec, f"{mp}:run-jobs"))
                        continue
                    written.setdefault(rec["name"], []).append(rec)
                    files.add("job-outputs/*/events.log")
                    continue
                # the record reached its file after the last time any process opened that file for reading: no
                # consolidation of the run can contain it
                if node_reads and not any(rf == apath and rs > seq for rf, rs, _ in node_reads):
                    late.setdefault(rec["name"], []).append((rec, by))
                    continue
                written.setdefault(rec["name"], []).append(rec)
                files.add(os.path.basename(fname))
            if never_merged:
                v.append(D.viol("C20:job-event-never-merged", f"{len(never_merged)} event(s) logged by job processes never reached a node "
                                f"event file (their job-outputs/<job>/events.log was not read after they were written), e.g. "
                                f"{[(r['source'], r['message']) for r in never_merged[:3]]}"))
            n_reads_before = len(w.event_file_reads)
            box = {}

            resource_names = set(EventsSummary.RESOURCE_STATS)

            def listing(summary):
                out_ = {}
                for n in written:
                    if n in resource_names:
                        # resource statistics are kept as one Parquet table per name: compare (timestamp, source) rows
                        df = summary.get_dataframe(n)
                        out_[n] = sorted((str(ts), str(src)) for ts, src in zip(df.index, df["source"])) if not df.empty else []
                    else:
                        out_[n] = [json.loads(str(e)) for e in summary.list_events(n)]
                return out_

            def reader():
                box["lists"] = listing(EventsSummary(sim.out))
                box["again"] = listing(EventsSummary(sim.out))
                raise SystemExit(0)

            vt = w.spawn("reader", "login1", w.base_env, reader, "reader")
            w.run()
            if vt.exc or "lists" not in box:
                v.append(D.viol("C20:flow-summary-failed", f"EventsSummary raised {vt.exc}"))
                return
            key = lambda d: json.dumps(d, sort_keys=True)  # noqa: E731
            for name, pairs in sorted(late.items()):
                writers = sorted({by.rsplit(":", 1)[-1] for _, by in pairs})
                res["classes"].append("flow_event_after_consolidation")
                v.append(D.viol(f"C20:event-after-consolidation|writer={'+'.join(writers)}|{name}",
                                f"{len(pairs)} {name} record(s) were written by {sorted({by for _, by in pairs})} after the finishing "
                                f"submitter had read the event files; they are not in the consolidated summary "
                                f"(e.g. {pairs[0][0]['source']} at {pairs[0][0]['timestamp']})"))
            for name, recs in written.items():
                got = box["lists"][name]
                if name in resource_names:
                    want_rows = sorted((str(r["timestamp"]), str(r["source"])) for r in recs)
                    if got != want_rows and name != "process_stats":
                        v.append(D.viol("C20:flow-resource-events-differ", f"resource statistic {name}: {len(want_rows)} samples reached the "
                                        f"event files, the summary table has {len(got)} rows"))
                    if box["again"][name] != got:
                        v.append(D.viol("C20:flow-consolidating-again-changes-events", f"resource statistic {name}"))
                    continue
                if sorted(map(key, got)) != sorted(map(key, recs)):
                    gk = list(map(key, got))
                    lost = [r for r in recs if key(r) not in gk]
                    dup = len(got) - len(set(gk))
                    v.append(D.viol("C20:flow-events-differ" + ("|lost" if lost else "|duplicated"),
                                    f"event name {name}: {len(recs)} records reached the event files {sorted(files)}, the summary has "
                                    f"{len(got)} ({dup} duplicates); e.g. missing {[(r['source'], r['message'], r['timestamp']) for r in lost[:2]]}"))
                ts = [g["timestamp"] for g in got]
                if ts != sorted(ts):
                    v.append(D.viol("C20:flow-events-not-ordered-by-time", f"event name {name}: timestamps {ts[:6]}"))
                if box["again"][name] != got:
                    v.append(D.viol("C20:flow-consolidating-again-changes-events", f"event name {name}"))
            res["counters"]["flow_events_written"] = sum(len(x) for x in written.values())
            res["nontrivial"] = len(files) >= 2 and sum(len(x) for x in written.values()) >= 4
            res["classes"].append("flow_reports_on" if scn["reports"] else "flow_reports_off")
            res["classes"].append("flow_monitor:" + scn.get("monitor", "none"))
            if res["nontrivial"] or v:
                res["sample"] = {"kind": "flow", "event_files": sorted(files), "written": {k: len(x) for k, x in written.items()},
                                 "jobs": len(scn["jobs"]), "reports": scn["reports"]}
            if v:
                res["replay_log"] = sim.w.abridged_log(80)
    finally:
        sys.stdout, sys.stderr = saved


def run_case(case):
    res = D.result()
    res["classes"].append("kind:" + case["kind"])
    {"events": run_events, "stats": run_stats, "tallies": run_tallies, "flow": run_flow}[case["kind"]](case, res)
    return res
