"""C13 -- resubmission reruns exactly the selected jobs and their dependents."""

import json
import os

from hypothesis import strategies as st

from jv import gen
from jv import hpcsim as H
from jv import refmodel as R
from jv import world as W
from jv.props import common as C

ID = "C13"
LEVEL = "exploration"
BUDGET = {"quick": 2600, "thorough": 32000}
RULE = (
    "case = generated scenario (reports on/off) x schedule x optional lost batches (sbatch failing for its whole "
    "retry series -> missing jobs) x optional resubmit-jobs attempt while the submission is incomplete (fired a "
    "generated number of steps into the run, or at a quiescent incomplete point instead of the recovery) x "
    "resubmit-jobs flags (all 8 combinations) x new exit codes for the rerun x optional second resubmission x optional "
    "cancel-jobs ending the first run; "
    "oracle: launches after the command are exactly the closure (selected by flags + transitive dependents) minus "
    "jobs canceled again, each once, each after all its blockers have rows; results of jobs outside the closure "
    "are field-for-field identical; afterwards one result per job; on an incomplete submission the command exits "
    "non-zero through its refusal path (no uncaught exception, no lock left behind, no foreign submitter role "
    "cleared), launches nothing and leaves job states, result rows and counters unchanged, and the submission "
    "can still be driven to completion; a failing resubmit-jobs never leaves results erased with no way forward; "
    "non-trivial = closure strictly larger than the selection, or a refusal while another process is submitter; "
    "distinct by hash of the case"
)
ASSUMPTIONS = C.WORLD_ASSUMPTIONS
setup, teardown = C.setup, C.teardown

FLAGS = st.fixed_dictionaries({"failed": st.booleans(), "missing": st.booleans(), "successful": st.booleans()})


@st.composite
def cases(draw):
    scn = draw(gen.scenarios(min_jobs=2, max_jobs=9, max_groups=2))
    names = [j["name"] for j in scn["jobs"]]
    return {
        "scn": scn,
        "schedule": draw(gen.schedules(120)),
        "lose": draw(st.lists(st.integers(0, 3), max_size=1)),
        "early": draw(st.one_of(st.none(), st.none(), st.fixed_dictionaries({
            "at": st.integers(5, 120), "quiescent": st.booleans()}))),
        "flags": draw(FLAGS),
        "rc2": draw(st.dictionaries(st.sampled_from(names), st.sampled_from([0, 0, 1]), max_size=4)),
        "repeat": draw(st.one_of(st.none(), FLAGS)),
        # the first run may end by the user's cancel-jobs (jobs left not submitted / batches killed)
        "cancel": draw(st.one_of(st.none(), st.none(), st.none(), st.integers(5, 150))),
    }


def strategy(tier):
    return cases()


def flag_args(f):
    return ["--failed" if f["failed"] else "--no-failed", "--missing" if f["missing"] else "--no-missing",
            "--successful" if f["successful"] else "--no-successful"]


def status_view(sim):
    cc, js = sim.cluster_config(), sim.job_status()
    rows = sorted(tuple(parts) for f, parts in W.read_result_rows(sim.out))
    return {
        "counters": {k: cc.get(k) for k in ("submitted_jobs", "completed_jobs", "is_complete", "is_canceled", "num_jobs")},
        "jobs": [(j["name"], j["state"], sorted(j["blocked_by"])) for j in js["jobs"]] if js else None,
        "hpc_job_ids": js["hpc_job_ids"] if js else None,
        "rows": rows,
        "submitter": cc.get("submitter"),
    }


def expected_closure(scn, summary, flags):
    sel = set()
    for n, r in summary["results"].items():
        cls = H.classify_result(r[0], r[1])
        if flags["failed"] and cls in ("failed", "canceled"):
            sel.add(n)
        if flags["successful"] and cls == "successful":
            sel.add(n)
    if flags["missing"]:
        sel.update(j["name"] for j in scn["jobs"] if j["name"] not in summary["results"])
    return sel, R.closure_dependents(scn, sel)


def preserved(r):
    """The fields the property promises to preserve for jobs that are not rerun."""
    if r is None:
        return None
    return {k: r[k] for k in ("name", "return_code", "status", "exec_time_s", "completion_time")}


def do_resubmit(sim, case, flags, v, res, label):
    """Resubmit a complete submission and check the rerun. Returns False if it cannot proceed."""
    w, scn = sim.w, case["scn"]
    before = sim.results_summary()
    if before is None:
        res["inconclusive"] = "no-results-json"
        return False
    sel, closure = expected_closure(scn, before, flags)
    raw_before = {r["name"]: r for r in before["raw"]["results"]}
    js_before = sim.job_status() or {"jobs": []}
    # jobs that were never handed to the HPC in the previous run (possible after cancel-jobs) and are not selected now
    unsub_unselected = {j["name"] for j in js_before["jobs"] if j["state"] == "not_submitted"} - closure
    mark = len(w.log)
    w.note("user", cmd=f"resubmit {flags}")
    vt = sim.user_cmd(["resubmit-jobs", sim.out] + flag_args(flags), name=label)
    sim.recovery_rounds = 0
    sim.stuck = None
    outcome = sim.drive()
    if vt.exc is not None or (vt.exit not in (0, None)):
        # the command failed: the submission must be unchanged or still completable
        cc = sim.cluster_config()
        after = sim.results_summary()
        msg = f"resubmit-jobs {flag_args(flags)} on a complete submission failed: exit={vt.exit} exc={vt.exc}"
        if outcome != "complete":
            v.append(C.viol(f"C13:failed-resubmit-leaves-no-way-forward|{(vt.exc or {}).get('frame')}",
                            msg + f"; afterwards the submission cannot be completed by try-submit-jobs ({outcome}); "
                            f"submitter={cc.get('submitter') if cc else None}, result rows now: "
                            f"{sorted({p[0] for f, p in W.read_result_rows(sim.out)})}, before: {sorted(raw_before)}"))
            return False
        if vt.exc is not None:
            v.append(C.viol(f"C13:resubmit-crashed|{(vt.exc or {}).get('frame')}", msg))
            return False
    if outcome != "complete":
        res["inconclusive"] = "rerun-" + outcome.split(":")[0]
        return False
    post_launch = {}
    finished_rows = {}
    jobs = R.job_map(scn)
    for r in w.log[mark:]:
        if r["k"] == "launch":
            post_launch[r["name"]] = post_launch.get(r["name"], 0) + 1
            on_disk = set(r.get("results_on_disk") or [])
            for b in jobs[r["name"]]["blocked_by"]:
                if b not in closure and b not in raw_before:
                    # a blocker that never got an outcome and was not selected (--no-missing): JADE treats blockers
                    # outside the rerun set as satisfied; the statement does not say otherwise (DESIGN observation O2)
                    res["counters"]["rerun_with_unselected_missing_blocker"] = \
                        res["counters"].get("rerun_with_unselected_missing_blocker", 0) + 1
                    continue
                if b not in on_disk:
                    v.append(C.viol("C13:rerun-out-of-dependency-order", f"rerun job {r['name']} started while blocker {b} has no "
                                    f"result row (rows: {sorted(on_disk)})"))
    after = sim.results_summary()
    raw_after = {r["name"]: r for r in after["raw"]["results"]}
    lost_now = {j for r in w.log[mark:] if r["k"] == "sbatch_fail" for j in []}
    tag = f"resubmit {flag_args(flags)} selected={sorted(sel)} closure={sorted(closure)}"
    for n in sorted(jobs):
        if n not in closure:
            if post_launch.get(n):
                if n in unsub_unselected:
                    v.append(C.viol("C13:unselected-job-rerun|was-not-submitted", f"{tag}: job {n} was never submitted in the previous "
                                    f"(canceled) run, is not selected by the flags, yet the resubmission ran it"))
                else:
                    v.append(C.viol("C13:unselected-job-rerun", f"{tag}: job {n} is outside the closure but was started again"))
            if n in unsub_unselected:
                continue  # consequences of the finding above (such a job gets a result) are not reported separately
            if preserved(raw_before.get(n)) != preserved(raw_after.get(n)):
                v.append(C.viol("C13:untouched-result-changed", f"{tag}: result of job {n} changed from {raw_before.get(n)} to "
                                f"{raw_after.get(n)}"))
        else:
            got = raw_after.get(n)
            if post_launch.get(n, 0) > 1:
                v.append(C.viol("C13:job-rerun-twice", f"{tag}: job {n} was started {post_launch[n]} times by one resubmission"))
            if got is None:
                v.append(C.viol("C13:selected-job-has-no-result", f"{tag}: job {n} is in the closure but has no result after the "
                                f"rerun completed (missing={after['missing']})"))
            elif post_launch.get(n, 0) == 0 and got["status"] != "canceled":
                v.append(C.viol("C13:selected-job-not-rerun", f"{tag}: job {n} is in the closure but was not started again and is "
                                f"not canceled: {got}"))
            elif post_launch.get(n, 0) == 1 and (got["status"] != "finished" or got["return_code"] != w.exit_codes.get(n, 0)):
                v.append(C.viol("C13:rerun-result-wrong", f"{tag}: job {n} reran with exit code {w.exit_codes.get(n, 0)} but result is {got}"))
    # afterwards: one entry per job that had a result or was rerun; jobs that were missing and not selected stay missing
    want_results = sorted(set(raw_before) | closure)
    want_missing = sorted(set(before["missing"]) - closure)
    got_results = sorted(set(raw_after) - unsub_unselected)
    got_missing = sorted(set(after["missing"]) - unsub_unselected)
    want_results = sorted(set(want_results) - unsub_unselected)
    want_missing = sorted(set(want_missing) - unsub_unselected)
    if unsub_unselected:
        res["excluded"] = True
        res["counters"]["unselected_unsubmitted_jobs_exempted"] = res["counters"].get("unselected_unsubmitted_jobs_exempted", 0) + len(unsub_unselected)
    if got_results != want_results or got_missing != want_missing or after["dups"]:
        v.append(C.viol("C13:results-not-one-per-job", f"{tag}: after the rerun results={sorted(raw_after)} missing={after['missing']} "
                        f"duplicates={after['dups']}; expected results={want_results} missing={want_missing}"))
    if len(closure) > len(sel):
        res["classes"].append("closure>selection")
        res["nontrivial"] = True
    if closure:
        res["classes"].append("reran_something")
    res["counters"]["resubmissions"] = res["counters"].get("resubmissions", 0) + 1
    return True


def run_case(case):
    scn = case["scn"]
    faults = [{"kind": "sbatch_fail_series", "nth": n} for n in case["lose"]]
    with H.Sim(scn, schedule=case["schedule"], faults=faults, snapshots=True, observe_results=True) as sim:
        w = sim.w
        early = case["early"]
        st_ = {}
        res = {"violations": [], "classes": gen.scenario_classes(scn), "nontrivial": False, "sample": None,
               "inconclusive": None, "counters": {}}
        v = res["violations"]

        def check_refusal(vt, before, snaps_from, where):
            after = status_view(sim)
            if vt.exc is not None:
                v.append(C.viol(f"C13:refusal-crashed|{vt.exc.get('frame')}", f"resubmit-jobs on an incomplete submission ({where}) "
                                f"raised {vt.exc}; submitter before={before['submitter']} after={after['submitter']}; lock file "
                                f"left: {os.path.exists(os.path.join(sim.out, 'cluster_config.json.lock'))}"))
            elif vt.exit in (0, None):
                v.append(C.viol("C13:incomplete-submission-not-refused", f"resubmit-jobs on an incomplete submission ({where}) exited {vt.exit}"))
            if os.path.exists(os.path.join(sim.out, "cluster_config.json.lock")) and not w.live_threads():
                v.append(C.viol("C13:refusal-left-lock", f"resubmit-jobs ({where}) left cluster_config.json.lock behind"))
            # role stealing: a lock release by the resubmit process that cleared a submitter it never was
            prev = None
            for s in w.snaps[snaps_from:]:
                try:
                    cc = json.loads(s["files"]["cluster_config.json"] or "null")
                except ValueError:
                    cc = None
                if cc is None:
                    continue
                if prev is not None and (s["by"] or "").startswith(vt.name) and prev["submitter"] and cc["submitter"] is None \
                        and not st_.get("resub_promoted"):
                    v.append(C.viol("C13:refusal-cleared-foreign-submitter", f"resubmit-jobs ({where}) was not promoted but cleared "
                                    f"the submitter role held by {prev['submitter']}"))
                if (s["by"] or "").startswith(vt.name) and cc["submitter"] == vt.host and (prev is None or prev["submitter"] is None):
                    st_["resub_promoted"] = True
                prev = cc
            return after

        if early and not early["quiescent"]:
            def pred(ww):
                if not os.path.exists(os.path.join(sim.out, "submitter_groups.json")):
                    return False
                st_.setdefault("t0", ww.steps)
                return ww.steps - st_["t0"] >= early["at"]

            def fire(ww):
                if sim.is_complete():
                    return
                st_["before"] = status_view(sim)
                st_["snaps_from"] = max(0, len(ww.snaps) - 1)
                st_["launches_before"] = len(ww.events("launch"))
                st_["vt"] = sim.user_cmd(["resubmit-jobs", sim.out] + flag_args(case["flags"]), name="early_resubmit")

            w.user_events.append(("early-resubmit", pred, fire, True))
        if case.get("cancel") is not None and not early:
            def cpred(ww):
                if not os.path.exists(os.path.join(sim.out, "submitter_groups.json")):
                    return False
                st_.setdefault("c0", ww.steps)
                return ww.steps - st_["c0"] >= case["cancel"]

            def cfire(ww):
                if not sim.is_complete():
                    st_["canceled"] = True
                    sim.user_cmd(["cancel-jobs", sim.out], name="cancel")

            w.user_events.append(("cancel", cpred, cfire, True))
        sim.submit()
        if early and early["quiescent"]:
            # run to quiescence; if incomplete, try resubmit-jobs instead of the recovery
            if not w.run():
                res["inconclusive"] = "step-budget"
                return res
            if sim.cluster_config() is not None and not sim.is_complete() and not w.live_threads():
                before = status_view(sim)
                nl = len(w.events("launch"))
                sf = max(0, len(w.snaps) - 1)
                vt = sim.user_cmd(["resubmit-jobs", sim.out] + flag_args(case["flags"]), name="early_resubmit")
                if not w.run():
                    res["inconclusive"] = "step-budget"
                    return res
                after = check_refusal(vt, before, sf, "idle, no process active")
                if len(w.events("launch")) != nl or len(w.events("sbatch")) != 0 + len([r for r in w.events("sbatch") if r["i"] < vt.root.pid * 0 + 10**9]) and False:
                    pass
                for k in ("counters", "jobs", "rows", "hpc_job_ids"):
                    if before[k] != after[k]:
                        v.append(C.viol(f"C13:refusal-changed-state|{k}", f"refused resubmit-jobs (idle) changed {k}: {before[k]} -> {after[k]}"))
                if len(w.events("launch")) != nl:
                    v.append(C.viol("C13:refusal-launched-jobs", "refused resubmit-jobs started jobs"))
                res["classes"].append("refusal_idle")
        outcome = sim.drive()
        w.user_events.clear()  # an early attempt that did not fire before completion is dropped
        if st_.get("vt") is not None:
            vt = st_["vt"]
            saw_complete = False
            for s in w.snaps[st_["snaps_from"]:]:
                if (s["by"] or "").startswith(vt.name):
                    try:
                        saw_complete = bool(json.loads(s["files"]["cluster_config.json"] or "{}").get("is_complete"))
                    except ValueError:
                        pass
                    break
            if saw_complete or (vt.exit == 0 and vt.exc is None):
                # by the time the command read the state the submission had completed: a regular resubmission
                res["classes"].append("early_resubmit_found_it_complete")
                res["inconclusive"] = "early-resubmit-accepted"
                return res
            if vt.state == "done":
                b = st_["before"]
                check_refusal(vt, b, st_["snaps_from"], f"while running; submitter at that time: {b['submitter']}")
                res["classes"].append("refusal_busy")
                if b["submitter"] is not None:
                    res["classes"].append("refusal_while_other_is_submitter")
                    res["nontrivial"] = True
        if v and any(x["sig"].startswith("C13:refusal") for x in v):
            res["replay_log"] = w.abridged_log(200)
            res["sample"] = C.sample_of(case, sim)
            return res
        if outcome != "complete":
            if early and st_.get("vt") is not None and not v:
                # the early command must not have destroyed the way forward
                if outcome.startswith("stuck") and not case["lose"]:
                    v.append(C.viol("C13:refused-resubmit-broke-submission", f"after a refused resubmit-jobs the submission cannot be "
                                    f"completed: {outcome}; exceptions: {sim.exceptions()[-3:]}"))
                    res["replay_log"] = w.abridged_log(200)
                    return res
            res["inconclusive"] = "initial-" + outcome.split(":")[0]
            return res
        if case["lose"] and any(r["k"] == "sbatch_fail" for r in w.log):
            res["classes"].append("has_missing_jobs")
        if scn["reports"]:
            res["classes"].append("reports_on")
        if st_.get("canceled"):
            res["classes"].append("first_run_canceled")
        # the rerun
        w.faults[:] = []
        w.exit_codes.update(case["rc2"])
        ok = do_resubmit(sim, case, case["flags"], v, res, "resubmit1")
        if ok and not v and case["repeat"] is not None:
            do_resubmit(sim, case, case["repeat"], v, res, "resubmit2")
            res["classes"].append("second_resubmission")
        if res["nontrivial"] or v:
            res["sample"] = C.sample_of(case, sim, {"flags": case["flags"], "rc2": case["rc2"], "early": case["early"]})
        if v:
            res["replay_log"] = w.abridged_log(200)
        return res
