"""C11 -- a submitter that dies or errors mid-round cannot cause double submission."""

import os

from hypothesis import strategies as st

from jv import gen
from jv import hpcsim as H
from jv import refmodel as R
from jv.props import common as C

ID = "C11"
LEVEL = "fault_enumeration"
BUDGET = {"quick": 2600, "thorough": 32000}
RULE = (
    "two parts. (1) enumerated: for fixed small scenarios (quick: 1, thorough: 3) under the sequential schedule, EVERY "
    "scheduling point (lock operation, external command, file open/commit/remove/rename) of EVERY submitter "
    "invocation (submit-jobs, each node's try-submit-jobs) is used once as a kill point, and every lock acquisition / "
    "file commit / sbatch / squeue call of every invocation once as an injected failure (lock Timeout, EDQUOT at "
    "commit leaving the truncated file, sbatch failing once or for its retry series, squeue failing once or for its "
    "retry series), each under both lock-library behaviours (markers never broken / malformed and provably dead "
    "markers broken); (2) generated: random scenarios x schedules x one such fault at a drawn invocation and position. "
    "After the fault the world drains, other nodes finish and try, and up to 3 further user attempts "
    "(try-submit-jobs, show-status -n) follow. Oracle over the whole faulty history: no job in two sbatch snapshots, "
    "no job started twice, every launch after all its blockers have rows on disk, the set of job names with a "
    "result row on disk (observed at every lock release) never loses an element; later invocations may refuse "
    "(exit or exception); after squeue-only faults the submission must still complete with every job's result. "
    "non-trivial = the fault hit after >= 1 sbatch of that round or while the cluster lock was held, and >= 1 later "
    "submitter attempt followed; distinct by hash of the case"
)
RULE += " Later additions (DESIGN.md 9): " + 'squeue outages last 1-3 retry windows; a process whose status query failed must not forget batches that are pending or have a job process running.'
ASSUMPTIONS = C.WORLD_ASSUMPTIONS + [
    "file_yields on: every open-for-write, commit (close), remove, rename and O_CREAT under the output directory is a "
    "scheduling, kill and fault point; a written file reaches the disk atomically at close (rows and JSON documents "
    "are < 1 page, written with one buffered write+close); a process killed before the commit leaves a 'w' file "
    "truncated and an 'a' file unchanged",
    "a killed process performs no further side effect; its lock marker stays",
]
setup, teardown = C.setup, C.teardown
NOHOOKS = {"setup": False, "teardown": False, "node_setup": False, "node_teardown": False}

FIXED = [
    # A: three single-job batches, j2 waits for j0: several rounds by nodes
    {"jobs": [{"name": "j0", "blocked_by": [], "cancel": False, "rc": 0, "est": 1, "group": 0},
              {"name": "j1", "blocked_by": [], "cancel": False, "rc": 1, "est": 1, "group": 0},
              {"name": "j2", "blocked_by": ["j0"], "cancel": True, "rc": 0, "est": 1, "group": 0}],
     "groups": [{"batch_size": 1, "time_based": False, "try_add": False, "walltime": 6, "nproc": 1, "cpus": 1}],
     "max_nodes": None},
    # B: max_nodes 1, try-add, a blocked job listed first
    {"jobs": [{"name": "j2", "blocked_by": ["j0"], "cancel": False, "rc": 0, "est": 1, "group": 0},
              {"name": "j0", "blocked_by": [], "cancel": False, "rc": 0, "est": 1, "group": 0},
              {"name": "j1", "blocked_by": [], "cancel": False, "rc": 0, "est": 1, "group": 0},
              {"name": "j3", "blocked_by": ["j1"], "cancel": True, "rc": 0, "est": 1, "group": 0}],
     "groups": [{"batch_size": 2, "time_based": False, "try_add": True, "walltime": 6, "nproc": 2, "cpus": 2}],
     "max_nodes": 1},
    # C: two groups, time-based
    {"jobs": [{"name": "j0", "blocked_by": [], "cancel": False, "rc": 0, "est": 2, "group": 0},
              {"name": "j1", "blocked_by": ["j0"], "cancel": False, "rc": 0, "est": 2, "group": 1},
              {"name": "j2", "blocked_by": [], "cancel": False, "rc": 0, "est": 3, "group": 0},
              {"name": "j3", "blocked_by": ["j2"], "cancel": False, "rc": 0, "est": 1, "group": 1}],
     "groups": [{"batch_size": 500, "time_based": True, "try_add": True, "walltime": 4, "nproc": 1, "cpus": 1},
                {"batch_size": 1, "time_based": False, "try_add": False, "walltime": 6, "nproc": None, "cpus": 2}],
     "max_nodes": 2},
]


def full(s):
    return dict(s, poll=1, reports=False, dry_run=False, dsub=True, mode="hpc", hooks=NOHOOKS)


def probe(scn):
    """Fault-free run under the sequential schedule: how many points / lock ops / commits each invocation has."""
    with H.Sim(scn, schedule=[], file_yields=True) as sim:
        sim.submit()
        sim.drive()
        out = []
        for p in sim.w.invocations:
            out.append({"inv": p.inv, "kind": p.kind, "points": p.n_points, "locks": p.n_lock, "writes": p.n_write})
        return out, sim.w.sbatch_calls, sim.w.squeue_calls


def enumerate_cases(tier):
    scns = FIXED[:1] if tier == "quick" else FIXED
    for si, s in enumerate(scns):
        scn = full(s)
        invs, n_sbatch, n_squeue = probe(scn)
        for mode in ("classic", "selfheal"):
            for p in invs:
                for k in range(1, p["points"] + 1):
                    yield {"scn": scn, "schedule": [], "lock_mode": mode, "fault": {"kind": "kill", "inv": p["inv"], "at": k},
                           "later": ["try", "show"], "fixed": si}
                for k in range(1, p["locks"] + 1):
                    yield {"scn": scn, "schedule": [], "lock_mode": mode, "fault": {"kind": "lock_timeout", "inv": p["inv"], "at": k},
                           "later": ["try", "show"], "fixed": si}
                for k in range(1, p["writes"] + 1):
                    yield {"scn": scn, "schedule": [], "lock_mode": mode, "fault": {"kind": "write_fail", "inv": p["inv"], "at": k},
                           "later": ["try", "show"], "fixed": si}
            for n in range(len(scn["jobs"]) + 1):
                for kind in ("sbatch_fail_once", "sbatch_fail_series", "sbatch_garbled"):
                    yield {"scn": scn, "schedule": [], "lock_mode": mode, "fault": {"kind": kind, "nth": n}, "later": ["try", "show"], "fixed": si}
            for n in range(1, n_squeue + 1):
                for kind in ("squeue_fail_once", "squeue_fail_series"):
                    yield {"scn": scn, "schedule": [], "lock_mode": mode, "fault": {"kind": kind, "nth": n}, "later": ["try", "show"], "fixed": si}
                # the scheduler stays unreachable for two retry windows
                yield {"scn": scn, "schedule": [], "lock_mode": mode, "fault": {"kind": "squeue_fail_series", "nth": n, "len": 14},
                       "later": ["try", "show"], "fixed": si}


@st.composite
def cases(draw):
    scn = draw(gen.scenarios(min_jobs=2, max_jobs=8, max_groups=2))
    kind = draw(st.sampled_from(["kill", "kill", "kill", "lock_timeout", "write_fail", "sbatch_fail_once", "sbatch_fail_series",
                                 "squeue_fail_once", "squeue_fail_series", "squeue_fail_series"]))
    if kind in ("kill", "lock_timeout", "write_fail"):
        fault = {"kind": kind, "inv": draw(st.integers(0, 5)),
                 "at": draw(st.integers(1, {"kill": 140, "lock_timeout": 14, "write_fail": 12}[kind]))}
    elif kind.startswith("sbatch"):
        fault = {"kind": kind, "nth": draw(st.integers(0, 4))}
    else:
        fault = {"kind": kind, "nth": draw(st.integers(1, 8))}
        if kind == "squeue_fail_series":
            fault["len"] = draw(st.sampled_from([7, 7, 14, 21]))  # 1-3 whole retry windows
    return {"scn": scn, "schedule": draw(gen.schedules(200)), "lock_mode": draw(st.sampled_from(["classic", "selfheal"])),
            "fault": fault, "later": draw(st.lists(st.sampled_from(["try", "show"]), min_size=1, max_size=3))}


def strategy(tier):
    return cases()


def _cmd(sim, kind):
    if kind == "try":
        return ["try-submit-jobs", sim.out]
    return ["show-status", "-o", sim.out, "-n"]


def run_case(case):
    scn = case["scn"]
    fault = dict(case["fault"])
    with H.Sim(scn, schedule=case["schedule"], lock_mode=case["lock_mode"], file_yields=True, faults=[fault],
               observe_results=True, observe_rows=True, max_steps=30000) as sim:
        w = sim.w
        res = {"violations": [], "classes": gen.scenario_classes(scn) + ["lock:" + case["lock_mode"], "fault:" + fault["kind"]],
               "nontrivial": False, "sample": None, "inconclusive": None, "counters": {}}
        v = res["violations"]
        sq = {"ids_at_start": {}, "failed": set()}

        def status_query_observer(rec):
            # a process whose status query failed for a whole retry window must not forget batches that are still alive
            # (pending, or with a job process running right now): it either aborts or continues consistently
            if rec["k"] == "proc_start":
                sq["ids_at_start"][rec["name"]] = set((sim.job_status() or {}).get("hpc_job_ids", []))
            elif rec["k"] == "squeue_fail" and rec.get("mode") == "series":
                sq["failed"].add(rec["by"])
            elif rec["k"] == "proc_end" and rec["name"] in sq["failed"]:
                sq["failed"].discard(rec["name"])
                after = set((sim.job_status() or {}).get("hpc_job_ids", []))
                live = set()
                for jid, r in w.slurm.items():
                    # alive for certain: not started yet, or one of its job processes is running right now
                    running = any(j.batch == jid and j.returncode is None and not j.died for j in w.jobs)
                    if r["state"] == "PENDING" or (r["state"] == "RUNNING" and r["vt"] is not None and not r["vt"].dead and running):
                        live.add(jid)
                dropped = (sq["ids_at_start"].get(rec["name"], set()) & live) - after
                if dropped:
                    v.append(C.viol("C11:live-batch-forgotten-after-status-query-failure",
                                    f"{rec['name']}: its status query failed; batches {sorted(dropped)} were recorded as active "
                                    f"when it started, are pending or have a job process running now, and are no longer recorded when it ended "
                                    f"(recorded now: {sorted(after)})"))

        if fault["kind"] == "squeue_fail_series":
            w.observers.append(status_query_observer)
        sim.submit()
        later_attempts = 0
        ok = w.run()
        for k in case["later"]:
            if not ok:
                break
            if sim.is_complete() or sim.cluster_config() is None:
                break
            w.note("user", cmd=k)
            sim.user_cmd(_cmd(sim, k))
            later_attempts += 1
            ok = w.run()
        if not ok:
            res["inconclusive"] = "step-budget"
        hit = bool(fault.get("done")) or bool(w.fault_hits)
        if not hit:
            res["classes"].append("fault_not_reached")
        # where did it land?
        hit_i = None
        for r in w.log:
            if r["k"] in ("kill", "fault", "sbatch_fail", "squeue_fail"):
                hit_i = r["i"]
                break
        in_window = False
        lock_held = False
        if hit_i is not None:
            # inside a round after >= 1 sbatch: last sublock event before the hit is a create and an sbatch lies between
            last_create = None
            for r in w.log[:hit_i]:
                if r["k"] == "sublock":
                    last_create = r["i"] if r["op"] == "create" else None
            if last_create is not None and any(r["k"] == "sbatch" and last_create < r["i"] < hit_i for r in w.log):
                in_window = True
            held = None
            for r in w.log[:hit_i]:
                if r["k"] == "clock":
                    if r["op"] == "acquire":
                        held = r["by"]
                    elif r["op"] == "release":
                        held = None
            lock_held = held is not None
        attempts_after = sum(1 for r in w.log if hit_i is not None and r["i"] > hit_i and r["k"] == "proc_start"
                             and r.get("kind") == "try-submit-jobs")
        res["nontrivial"] = hit and (in_window or lock_held) and attempts_after >= 1
        if in_window:
            res["classes"].append("hit_after_sbatch_in_round")
        if lock_held:
            res["classes"].append("hit_while_cluster_lock_held")
        # ---- oracles over the whole history
        placed = C.placements(sim)
        for j, b in sorted(placed.items()):
            if len(b) > 1:
                v.append(C.viol("C11:job-in-two-batches", f"after fault {case['fault']} ({case['lock_mode']}): job {j} handed to sbatch in "
                                f"batches {b}"))
        nl = C.launches(sim)
        for j, c in sorted(nl.items()):
            if c > 1:
                v.append(C.viol("C11:job-started-twice", f"after fault {case['fault']} ({case['lock_mode']}): job {j} started {c} times"))
        jobs = R.job_map(scn)
        for r in w.events("launch"):
            on_disk = set(r["results_on_disk"])
            for b in jobs[r["name"]]["blocked_by"]:
                if b not in on_disk:
                    v.append(C.viol("C11:started-before-blocker-outcome", f"after fault {case['fault']}: job {r['name']} started while "
                                    f"blocker {b} has no result row (rows {sorted(on_disk)})"))
        seen = set()
        for i, names, by in w.rowsets:
            gone = seen - set(names)
            if gone:
                v.append(C.viol("C11:result-row-lost", f"after fault {case['fault']} ({case['lock_mode']}): result rows of {sorted(gone)} "
                                f"disappeared from disk (observed after a lock release by {by}, log index {i})"))
                break
            seen |= set(names)
        final_rows = H.W.read_result_names(sim.out) if os.path.isdir(sim.out) else set()
        if seen - final_rows:
            v.append(C.viol("C11:result-row-lost", f"after fault {case['fault']}: rows of {sorted(seen - final_rows)} not on disk at the end"))
        if fault["kind"].startswith("squeue") and res["inconclusive"] is None:
            # a transient status-query failure: the next round proceeds normally, the submission still completes fully
            outcome = "complete" if sim.is_complete() else sim.drive(max_rounds=len(scn["jobs"]) + 3)
            if outcome != "complete":
                v.append(C.viol("C11:no-recovery-after-status-query-failure", f"after {case['fault']} the submission does not complete: "
                                f"{outcome}; submitter={(sim.cluster_config() or {}).get('submitter')} submitter.lock="
                                f"{os.path.exists(os.path.join(sim.out, 'submitter.lock'))}; exceptions={sim.exceptions()[-3:]}"))
            else:
                summ = sim.results_summary()
                ref = R.classify_simple(scn)
                got = {n: H.classify_result(r[0], r[1]) for n, r in summ["results"].items()}
                if summ["missing"] or got != ref:
                    v.append(C.viol("C11:wrong-results-after-status-query-failure", f"after {case['fault']}: results {got} missing "
                                    f"{summ['missing']}; reference {ref}"))
            # re-check double submission after the extra rounds
            for j, b in sorted(C.placements(sim).items()):
                if len(b) > 1 and not any(x["sig"] == "C11:job-in-two-batches" for x in v):
                    v.append(C.viol("C11:job-in-two-batches", f"after fault {case['fault']}: job {j} in batches {b}"))
        res["counters"]["later_attempts"] = attempts_after
        if "fixed" in case:
            res["classes"].append(f"enumerated_scenario_{'ABC'[case['fixed']]}")
        if res["nontrivial"] or v:
            res["sample"] = C.sample_of(case, sim, {"fault": case["fault"], "lock_mode": case["lock_mode"], "later": case["later"]})
        if v:
            res["replay_log"] = w.abridged_log(200)
        return res
