"""Shared pieces of the direct (E4) Hypothesis checks: scratch directory, quiet logging, fake command layer."""

import logging
import os
import shutil
import sys
import tempfile

_SCRATCH = None
_DEVNULL = None


def setup(tier=None):
    global _SCRATCH, _DEVNULL
    if _SCRATCH is None:
        base = "/dev/shm" if os.path.isdir("/dev/shm") and os.access("/dev/shm", os.W_OK) else None
        _SCRATCH = tempfile.mkdtemp(prefix="jvd_", dir=base)
        os.environ["JADE_REGISTRY"] = os.path.join(_SCRATCH, "registry.json")
        tempfile.tempdir = _SCRATCH
    logging.disable(logging.CRITICAL)
    _DEVNULL = open(os.devnull, "w")
    sys.stdout = _DEVNULL
    sys.stderr = _DEVNULL


def teardown():
    global _SCRATCH
    sys.stdout = sys.__stdout__
    sys.stderr = sys.__stderr__
    if _SCRATCH is not None:
        shutil.rmtree(_SCRATCH, ignore_errors=True)
        _SCRATCH = None


def scratch():
    if _SCRATCH is None:
        setup()
    return _SCRATCH


def fresh_dir(prefix="c_"):
    return tempfile.mkdtemp(prefix=prefix, dir=scratch())


def viol(sig, msg):
    return {"sig": sig, "msg": msg}


def result():
    return {"violations": [], "classes": [], "nontrivial": False, "sample": None, "inconclusive": None, "counters": {}}
