"""C09 -- persisted status is always consistent and only moves forward."""

import json
import os

from hypothesis import strategies as st

from jv import gen
from jv import hpcsim as H
from jv import world as W
from jv.props import common as C

ID = "C09"
LEVEL = "exploration"
BUDGET = {"quick": 3200, "thorough": 40000}
RULE = (
    "case = generated scenario x schedule x up to 3 user commands fired by the schedule (try-submit-jobs, "
    "show-status -n, cancel-jobs) x optional resubmit-jobs (generated flags) after completion, driven to completion "
    "again; the four cluster files are snapshotted (raw) after EVERY release of the cluster lock by any process, "
    "once Cluster.create has written them, and each snapshot is checked for internal consistency and against the "
    "previous snapshot of the same epoch (epochs are separated by resubmit-jobs); the final state is also read back "
    "through Cluster.deserialize(...).get_status_summary(include_jobs=True); non-trivial = >= 3 distinct snapshots "
    "including a cancellation (submitter-level or user) or an unblocking over >= 2 rounds; distinct by hash of the case"
)
RULE += " Later additions (DESIGN.md 9): " + 'one operator command bound to the end of a batch and held back between two lock holds; 3/7 of the submissions use multi-node batches (#SBATCH --nodes=2/3: run-jobs and try-submit-jobs on every node, results recorded by node 0); up to 2 `show-status -j` commands issued at generated steps and held back after a lock release: the printed counters must agree with the printed job table (the status is read as one snapshot).'
ASSUMPTIONS = C.WORLD_ASSUMPTIONS + [
    "observation granularity is the property's own: after every cluster-lock release (file_yields off); "
    "Cluster.prepare_for_resubmission writes its two files without the lock by design and is treated as the epoch boundary",
    "fault-free histories only (C11 owns the faulty ones)",
]
setup, teardown = C.setup, C.teardown

ORDER = {"not_submitted": 0, "submitted": 1, "done": 2}


def strategy(tier):
    # a fifth of the submissions use multi-node batches (#SBATCH --nodes=2/3): srun starts run-jobs on every node of the
    # allocation, each node runs the batch's commands and its own try-submit-jobs, only node 0 records results
    scn = st.tuples(gen.scenarios(), st.sampled_from([1, 1, 1, 1, 2, 2, 3])).map(lambda t: dict(t[0], nodes=t[1]))
    return st.fixed_dictionaries({
        "scn": scn,
        "schedule": gen.schedules(),
        "user": st.lists(st.sampled_from(["try", "show", "cancel", "try"]), max_size=3),
        "resubmit": st.one_of(st.none(), st.fixed_dictionaries({
            "failed": st.booleans(), "missing": st.booleans(), "successful": st.booleans()})),
        "late": C.late_ops(),
        # the status as read by `show-status -j` while rounds go on: issued at a generated step, held back for a while
        # right after its first / second release of the cluster lock
        "reads": st.lists(st.fixed_dictionaries({"at": st.integers(15, 300), "release": st.integers(1, 2),
                                                 "steps": st.integers(20, 200)}), max_size=2),
    })


def _cmd(sim, kind):
    if kind == "try":
        return ["try-submit-jobs", sim.out]
    if kind == "cancel":
        return ["cancel-jobs", sim.out]
    return ["show-status", "-o", sim.out, "-n"]


def parse_snap(s):
    f = s["files"]
    if any(f[k] is None for k in W.CLUSTER_FILES):
        return None
    try:
        return {
            "cc": json.loads(f["cluster_config.json"]),
            "js": json.loads(f["job_status.json"]),
            "cv": int(f["config_version.txt"].strip()),
            "jv": int(f["job_status_version.txt"].strip()),
        }
    except ValueError as e:
        return {"error": str(e)}


def status_ok(p, results, where):
    """Internal consistency of one snapshot."""
    out = []
    if "error" in p:
        return [C.viol("C09:unparsable-status-files", f"{where}: {p['error']}")]
    cc, js = p["cc"], p["js"]
    if p["cv"] != cc["version"]:
        out.append(C.viol("C09:config-version-file-mismatch", f"{where}: config_version.txt={p['cv']} but cluster_config.json "
                          f"version={cc['version']}"))
    if p["jv"] != js["version"]:
        out.append(C.viol("C09:job-status-version-file-mismatch", f"{where}: job_status_version.txt={p['jv']} but job_status.json "
                          f"version={js['version']}"))
    n_done = sum(1 for j in js["jobs"] if j["state"] == "done")
    n_sub = sum(1 for j in js["jobs"] if j["state"] == "submitted")
    if not (cc["completed_jobs"] <= cc["submitted_jobs"] <= cc["num_jobs"]):
        out.append(C.viol("C09:counter-order", f"{where}: completed={cc['completed_jobs']} submitted={cc['submitted_jobs']} "
                          f"num_jobs={cc['num_jobs']}"))
    if cc["completed_jobs"] != n_done:
        out.append(C.viol("C09:completed-counter-vs-done-jobs", f"{where}: completed_jobs={cc['completed_jobs']} but {n_done} jobs "
                          f"are marked done"))
    if cc["submitted_jobs"] != n_sub + n_done:
        out.append(C.viol("C09:submitted-counter-vs-job-states", f"{where}: submitted_jobs={cc['submitted_jobs']} but {n_sub} "
                          f"submitted + {n_done} done"))
    for j in js["jobs"]:
        if j["state"] == "done" and j["name"] not in results:
            out.append(C.viol("C09:done-job-without-result", f"{where}: job {j['name']} is done but has no result row on disk"))
        if j["state"] != "not_submitted" and j["blocked_by"]:
            out.append(C.viol("C09:blockers-on-submitted-job", f"{where}: job {j['name']} state={j['state']} still lists "
                              f"blocked_by={j['blocked_by']}"))
    if len(js["jobs"]) != cc["num_jobs"]:
        out.append(C.viol("C09:num-jobs", f"{where}: num_jobs={cc['num_jobs']} but {len(js['jobs'])} job records"))
    return out


def forward_ok(prev, cur, where):
    out = []
    pc, pj, cc, cj = prev["cc"], prev["js"], cur["cc"], cur["js"]
    if cur["cv"] < prev["cv"] or cur["jv"] < prev["jv"]:
        out.append(C.viol("C09:version-decreased", f"{where}: versions ({prev['cv']},{prev['jv']}) -> ({cur['cv']},{cur['jv']})"))
    strip = lambda d: {k: v for k, v in d.items() if k != "version"}  # noqa: E731
    if strip(pc) != strip(cc) and cur["cv"] <= prev["cv"]:
        out.append(C.viol("C09:config-changed-without-version-bump", f"{where}: cluster_config.json content changed, version "
                          f"{prev['cv']} -> {cur['cv']}"))
    if strip(pj) != strip(cj) and cur["jv"] <= prev["jv"]:
        out.append(C.viol("C09:job-status-changed-without-version-bump", f"{where}: job_status.json content changed, version "
                          f"{prev['jv']} -> {cur['jv']}"))
    for k in ("submitted_jobs", "completed_jobs"):
        if cc[k] < pc[k]:
            out.append(C.viol("C09:counter-decreased", f"{where}: {k} {pc[k]} -> {cc[k]}"))
    if pc["is_complete"] and not cc["is_complete"]:
        out.append(C.viol("C09:complete-flag-cleared", f"{where}: is_complete true -> false without a resubmission"))
    if pc["is_canceled"] and not cc["is_canceled"]:
        out.append(C.viol("C09:canceled-flag-cleared", f"{where}: is_canceled true -> false without a resubmission"))
    pmap = {j["name"]: j for j in pj["jobs"]}
    for j in cj["jobs"]:
        o = pmap.get(j["name"])
        if o is None:
            out.append(C.viol("C09:job-appeared", f"{where}: job {j['name']} not in previous snapshot"))
            continue
        if ORDER[j["state"]] < ORDER[o["state"]]:
            out.append(C.viol("C09:job-state-went-back", f"{where}: job {j['name']} {o['state']} -> {j['state']}"))
        if not set(j["blocked_by"]) <= set(o["blocked_by"]):
            out.append(C.viol("C09:blockers-grew", f"{where}: job {j['name']} blocked_by {o['blocked_by']} -> {j['blocked_by']}"))
    if cj["batch_index"] < pj["batch_index"]:
        out.append(C.viol("C09:batch-index-decreased", f"{where}: batch_index {pj['batch_index']} -> {cj['batch_index']}"))
    return out


def check_snaps(sim, v):
    prev = None
    n = 0
    last_boundary = -1
    resub_starts = [r["i"] for r in sim.w.events("proc_start") if r.get("kind") == "resubmit-jobs"]
    saw_cancel = False
    unblock_rounds = set()
    for s in sim.w.snaps:
        p = parse_snap(s)
        if p is None:
            continue
        n += 1
        where = f"snapshot #{n} (after lock release by {s['by']}, log index {s['i']})"
        v.extend(status_ok(p, set(s["results"]), where))
        if "error" in p:
            prev = None
            continue
        if prev is not None:
            # epoch boundary: a resubmit-jobs command started since the last boundary and reset a complete submission
            resub = [i for i in resub_starts if last_boundary < i <= s["i"]]
            boundary = bool(resub) and prev["cc"]["is_complete"] and (
                not p["cc"]["is_complete"] or p["cc"]["completed_jobs"] < prev["cc"]["completed_jobs"]
                or p["cc"]["submitted_jobs"] < prev["cc"]["submitted_jobs"])
            if boundary:
                last_boundary = s["i"]
                prev = None
            else:
                v.extend(forward_ok(prev, p, where))
                for j in p["js"]["jobs"]:
                    o = {x["name"]: x for x in prev["js"]["jobs"]}.get(j["name"])
                    if o and set(j["blocked_by"]) < set(o["blocked_by"]) and j["state"] == "not_submitted":
                        unblock_rounds.add(s["i"])
        if p["cc"]["is_canceled"]:
            saw_cancel = True
        prev = p
    return n, saw_cancel, len(unblock_rounds)


def run_case(case):
    scn = case["scn"]
    with H.Sim(scn, schedule=case["schedule"], snapshots=True) as sim:
        w = sim.w
        created = lambda ww: os.path.exists(os.path.join(sim.out, "submitter_groups.json"))  # noqa: E731
        shows = []

        def issue(kk):
            if kk == "show":
                # the status as a user reads it: `show-status -j` prints the counters and the job table
                shows.append(sim.user_cmd(_cmd(sim, kk) + ["-j"], capture=True))
            else:
                sim.user_cmd(_cmd(sim, kk))

        for k in case["user"]:
            w.user_events.append((k, created, (lambda kk: lambda ww: issue(kk))(k)))
        for op in case.get("reads", []):
            # `show-status -j` issued at a generated step and held back right after its n-th release of the cluster lock
            def rpred(ww, at=op["at"]):
                return ww.steps >= at and created(ww) and not sim.is_complete()

            def rfire(ww, op=op):
                vt = sim.user_cmd(["show-status", "-o", sim.out, "-n", "-j"], capture=True, host="userhost5")
                vt.own_pauses = [{"release": op["release"], "steps": op["steps"]}]
                shows.append(vt)

            w.cond_events.append(("show-j", rpred, rfire))
        C.install_late_ops(sim, case.get("late"))
        sim.submit()
        outcome = sim.drive()
        w.cond_events.clear()
        res = C.base_result(case, sim, outcome)
        v = res["violations"]
        w.user_events.clear()
        if outcome == "complete" and case["resubmit"] is not None:
            f = case["resubmit"]
            args = ["resubmit-jobs", sim.out,
                    "--failed" if f["failed"] else "--no-failed",
                    "--missing" if f["missing"] else "--no-missing",
                    "--successful" if f["successful"] else "--no-successful"]
            w.note("user", cmd="resubmit")
            sim.user_cmd(args, name="resubmit")
            sim.recovery_rounds = 0
            outcome2 = sim.drive()
            res["classes"].append("resubmitted")
            if outcome2 != "complete" and res["inconclusive"] is None:
                res["inconclusive"] = "after-resubmit-" + outcome2.split(":")[0]
        n, saw_cancel, unblocks = check_snaps(sim, v)
        # read back through the public API at the final quiescent point
        if sim.cluster_config() is not None and not sim.deadlocked():
            box = {}

            def reader():
                from jade.jobs.cluster import Cluster

                cl, _ = Cluster.deserialize(sim.out, deserialize_jobs=True)
                box["summary"] = json.loads(json.dumps(cl.get_status_summary(include_jobs=True), default=lambda o: getattr(o, "value", sorted(o) if isinstance(o, (set, frozenset)) else str(o))))
                raise SystemExit(0)

            w.spawn("reader", "login1", w.base_env, reader, "reader")
            w.run()
            summ = box.get("summary")
            cc, js = sim.cluster_config(), sim.job_status()
            if summ is None:
                v.append(C.viol("C09:status-unreadable", "Cluster.deserialize(...).get_status_summary failed at a quiescent point"))
            else:
                want = {"is_complete": cc["is_complete"], "is_canceled": cc["is_canceled"], "num_jobs": cc["num_jobs"],
                        "completed_jobs": cc["completed_jobs"], "not_submitted_jobs": cc["num_jobs"] - cc["submitted_jobs"]}
                got = {k: summ[k] for k in want}
                if got != want:
                    v.append(C.viol("C09:summary-differs-from-files", f"get_status_summary {got} vs files {want}"))
                gj = {j["name"]: (j["state"], sorted(j["blocked_by"])) for j in summ["job_status"]["jobs"]}
                wj = {j["name"]: (j["state"], sorted(j["blocked_by"])) for j in js["jobs"]}
                if gj != wj:
                    v.append(C.viol("C09:summary-jobs-differ-from-files", f"{gj} vs {wj}"))
        # what `show-status -j` printed is one consistent status: the counters agree with the job table
        for vt in shows:
            text = "".join(getattr(vt, "captured", {}).get("out") or [])
            if "Job Status:" not in text:
                continue
            import re as _re

            cm = _re.search(r"^\s*completed_jobs: (\d+)\s*$", text, _re.M)
            nm = _re.search(r"^\s*not_submitted_jobs: (\d+)\s*$", text, _re.M)
            rows = [ln for ln in text.split("Job Status:", 1)[1].splitlines() if ln.startswith("|")][1:]
            states = [c.strip() for ln in rows for c in ln.strip("|").split("|") if c.strip() in ("done", "submitted", "not_submitted")]
            if cm and rows and len(states) == len(rows):
                res["classes"].append("show_status_table_read")
                if int(cm.group(1)) != states.count("done"):
                    v.append(C.viol("C09:show-status-counters-vs-table", f"show-status ({vt.name}) printed completed_jobs={cm.group(1)} "
                                    f"with {states.count('done')} jobs shown as done ({states})"))
                elif nm and int(nm.group(1)) != states.count("not_submitted"):
                    v.append(C.viol("C09:show-status-counters-vs-table", f"show-status ({vt.name}) printed not_submitted_jobs="
                                    f"{nm.group(1)} with {states.count('not_submitted')} jobs shown as not_submitted ({states})"))
        has_cancel_rows = any(parts[2] == "canceled" for f, parts in W.read_result_rows(sim.out))
        res["counters"]["snapshots"] = n
        if saw_cancel:
            res["classes"].append("user_cancel")
        if has_cancel_rows:
            res["classes"].append("failure_cancellation")
        if unblocks >= 2:
            res["classes"].append("multi_round_unblocking")
        res["nontrivial"] = n >= 3 and (saw_cancel or has_cancel_rows or unblocks >= 2)
        if res["nontrivial"] or v:
            res["sample"] = C.sample_of(case, sim, {"snapshots": n, "user": case["user"], "resubmit": case["resubmit"]})
        if v:
            res["replay_log"] = w.abridged_log(200)
        return res
