"""C12 -- every job is accounted for when batches fail, are killed or time out."""

from hypothesis import strategies as st

from jv import gen
from jv import hpcsim as H
from jv import refmodel as R
from jv.props import common as C

ID = "C12"
LEVEL = "fault_enumeration"
BUDGET = {"quick": 4000, "thorough": 48000}
RULE = (
    "case = generated scenario (DAGs may contain a dependency cycle or self-dependency) x schedule x generated faults: "
    "sbatch failing for its whole retry series or answering without a job id for the n-th distinct batch, a single "
    "transient sbatch failure (benign), and node kills (NODE_FAIL or TIMEOUT) of the n-th started batch at its k-th "
    "scheduling point while it runs jobs (points while the node acts as submitter belong to C11: excluded, counted); "
    "up to 2 operator commands (try-submit-jobs / show-status -n) fired a generated number of steps into the run; after the world drains the documented try-submit-jobs recovery runs until completion. Ground truth from the "
    "simulator: a job is lost iff its batch was never enqueued, or its node was killed before the job's result row "
    "was on disk. Oracle on the final results.json: missing_jobs == reference missing set (lost jobs, jobs on or "
    "behind a cycle, jobs waiting for a missing job unless flagged and another blocker failed -> canceled); every "
    "'finished' result belongs to a job that really finished with that exit code; every 'canceled' result is a "
    "reference cancellation; every job finished on a surviving node has its result; no job waiting for a missing job "
    "was started; the submission reaches completion; a transient sbatch failure does not duplicate a batch. "
    "non-trivial = >= 1 lost batch with a dependent job outside it, or a cycle; distinct by hash of the case"
)
RULE += " Later additions (DESIGN.md 9): " + "additional fault: a node's runner dies by itself (I/O error while recording one job's completion: the job left a dangling link in its output directory); one operator command bound to the end of a batch."
ASSUMPTIONS = C.WORLD_ASSUMPTIONS + [
    "a failed sbatch does not enqueue the batch (no 'SLURM lied' faults)",
    "a killed node dies at a scheduling point (lock operation, external command, sleep); its job processes die with it",
]
setup, teardown = C.setup, C.teardown


@st.composite
def cases(draw):
    scn = draw(gen.scenarios(min_jobs=2, max_jobs=10, allow_cycles=True))
    faults = []
    kinds = draw(st.lists(st.sampled_from(["series", "series", "garbled", "once", "kill", "kill", "kill", "unreadable"]), min_size=1, max_size=3))
    used = set()
    for k in kinds:
        if k in ("series", "garbled", "once"):
            n = draw(st.integers(0, 4))
            if ("s", n) in used:
                continue
            used.add(("s", n))
            faults.append({"kind": {"series": "sbatch_fail_series", "garbled": "sbatch_garbled", "once": "sbatch_fail_once"}[k], "nth": n})
        elif k == "unreadable":
            # a node's runner dies by itself: an I/O error while it records one job's completion (the job left a dangling
            # symbolic link in its output directory, which JADE's size scan trips over)
            jn = draw(st.sampled_from([j["name"] for j in scn["jobs"]]))
            if ("u", jn) in used:
                continue
            used.add(("u", jn))
            faults.append({"kind": "unreadable_output", "job": jn})
        else:
            b = draw(st.integers(0, 3))
            if ("k", b) in used:
                continue
            used.add(("k", b))
            faults.append({"kind": "kill", "batch": b, "at": draw(st.integers(1, 60)), "runner_only": True,
                           "state": draw(st.sampled_from(["NODE_FAIL", "TIMEOUT"]))})
    # the operator's try-submit-jobs / show-status may also run while batches are still active (a generated number of
    # steps into the run), not only after everything drained
    user = draw(st.lists(st.fixed_dictionaries({"at": st.integers(20, 400), "cmd": st.sampled_from(["try", "show"])}), max_size=2))
    return {"scn": scn, "schedule": draw(gen.schedules()), "faults": faults, "user": user, "late": draw(C.late_ops())}


def strategy(tier):
    return cases()


def run_case(case):
    scn = case["scn"]
    faults = [dict(f) for f in case["faults"]]
    with H.Sim(scn, schedule=case["schedule"], faults=faults) as sim:
        w = sim.w
        import os as _os

        for u in sorted(case.get("user", []), key=lambda x: x["at"]):
            def pred(ww, at=u["at"]):
                return ww.steps >= at and _os.path.exists(_os.path.join(sim.out, "submitter_groups.json"))

            def fire(ww, cmd=u["cmd"]):
                if not sim.is_complete():
                    sim.user_cmd(["try-submit-jobs", sim.out] if cmd == "try" else ["show-status", "-o", sim.out, "-n"])

            w.user_events.append((u["cmd"], pred, fire, True))
        C.install_late_ops(sim, case.get("late"))
        sim.submit()
        outcome = sim.drive()
        w.user_events.clear()
        res = C.base_result(case, sim, outcome)
        if case.get("late") and not w.cond_events:
            res["classes"].append("late_operator_command_fired")
        v = res["violations"]
        jobs = R.job_map(scn)
        if case.get("user"):
            res["classes"].append("operator_command_during_run")
        _, cyclic = R.topo_order(scn)
        # ground truth
        lost = set()
        lost_batches = []
        failed_scripts = {r["script"] for r in w.events("sbatch_fail") if r["mode"] in ("series", "garbled")}
        for script in failed_scripts:
            # the jobs of a batch that never got enqueued: read from the batch config the script leads to
            try:
                rec = H.W.parse_submission(__import__("os").path.join(sim.out, script))
            except Exception:
                continue
            lost.update(rec["jobs"])
            lost_batches.append(set(rec["jobs"]))
        for r in w.events("kill"):
            if r.get("batch") is None:
                continue
            rec = w.slurm[r["batch"]]
            gone = set(rec["jobs"]) - set(r.get("rows_on_disk") or [])
            lost.update(gone)
            if gone:
                lost_batches.append(gone)
        for r in w.events("end_batch"):
            # a runner that died by itself (exception): the jobs of its batch it had not recorded are lost with it
            if r.get("exc") and r.get("rows_on_disk") is not None:
                gone = set(w.slurm[r["id"]]["jobs"]) - set(r["rows_on_disk"])
                lost.update(gone)
                if gone:
                    lost_batches.append(gone)
                    res["classes"].append("runner_died_by_itself")
        excluded = sum(1 for f in faults if f.get("excluded"))
        hit_kill = sum(1 for f in faults if f["kind"] == "kill" and f.get("done"))
        res["counters"].update({"kills": hit_kill, "kill_points_excluded_node_was_submitter": excluded,
                                "lost_batches": len(lost_batches)})
        if lost_batches:
            res["classes"].append("lost_batch")
        if cyclic:
            res["classes"].append("cycle")
        if any(r["mode"] == "once" for r in w.events("sbatch_fail")):
            res["classes"].append("transient_sbatch_failure")
        # transient failure must not duplicate a batch / any job
        placed = C.placements(sim)
        for j, b in placed.items():
            if len(b) > 1:
                v.append(C.viol("C12:job-in-two-batches", f"job {j} handed to sbatch in batches {b}"))
        ref, _ = R.classify(scn, lost)
        nl = C.launches(sim)
        for n, cls in ref.items():
            if cls in ("missing", "canceled") and n not in lost and nl.get(n, 0) > 0:
                v.append(C.viol("C12:job-waiting-for-missing-job-was-started", f"job {n} (reference {cls}; lost={sorted(lost)}, "
                                f"cyclic={cyclic}) was started"))
        if outcome.startswith("stuck"):
            v.append(C.viol("C12:submission-never-completes", f"after faults {case['faults']} the submission cannot be completed by "
                            f"try-submit-jobs: {outcome}; exceptions={sim.exceptions()[-3:]}"))
            res["inconclusive"] = None
        if outcome == "complete":
            summ = sim.results_summary()
            if summ is None:
                v.append(C.viol("C12:no-results-file", "complete but no results.json"))
            else:
                want_missing = sorted(n for n, c in ref.items() if c == "missing")
                if sorted(summ["missing"]) != want_missing:
                    v.append(C.viol("C12:missing-set-differs", f"missing_jobs={sorted(summ['missing'])}; reference {want_missing} "
                                    f"(lost={sorted(lost)}, cyclic={cyclic}); results={ {n: r[:2] for n, r in summ['results'].items()} }"))
                finished = {}
                for r in w.events("finish"):
                    finished[r["name"]] = r["rc"]
                for n, r in summ["results"].items():
                    if r[1] == "finished":
                        if n not in finished or finished[n] != r[0]:
                            v.append(C.viol("C12:fabricated-result", f"job {n} has result {r} but the simulator says "
                                            f"{'it finished with ' + str(finished[n]) if n in finished else 'it never finished'}"))
                    elif r[1] == "canceled":
                        if ref.get(n) != "canceled":
                            v.append(C.viol("C12:unjustified-cancel", f"job {n} has a canceled result; reference {ref.get(n)}"))
                    else:
                        v.append(C.viol("C12:unknown-status", f"job {n} result {r}"))
                if summ["dups"]:
                    v.append(C.viol("C12:duplicate-result", f"{summ['dups']}"))
                for n, rc in finished.items():
                    if n not in lost and n not in summ["results"]:
                        v.append(C.viol("C12:finished-job-result-dropped", f"job {n} finished with {rc} on a node that recorded it, "
                                        f"but has no result (missing={summ['missing']})"))
                if sorted(list(summ["results"]) + summ["missing"]) != sorted(jobs):
                    v.append(C.viol("C12:jobs-not-partitioned", f"results {sorted(summ['results'])} + missing {summ['missing']}"))
        dependents_outside = any(any(R.transitively_waits_for(scn, n, lb) for n in jobs if n not in lb) for lb in lost_batches)
        res["nontrivial"] = outcome == "complete" and (dependents_outside or bool(cyclic))
        if dependents_outside:
            res["classes"].append("dependent_outside_lost_batch")
        if res["nontrivial"] or v:
            res["sample"] = C.sample_of(case, sim, {"faults": case["faults"], "lost": sorted(lost), "reference": ref})
        if v:
            res["replay_log"] = w.abridged_log(200)
        return res
