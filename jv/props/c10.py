"""C10 -- only one submitter at a time; stale state never overwrites newer state."""

import json
import os

from hypothesis import strategies as st

from jv import gen
from jv import hpcsim as H
from jv import world as W
from jv.props import common as C

ID = "C10"
LEVEL = "exploration"
BUDGET = {"quick": 4800, "thorough": 60000}
RULE = (
    "two generated sub-cases. handles (model-based operation sequences): 2-4 Cluster handles on distinct virtual hosts "
    "perform 10-30 generated operations (load with/without promotion, promote, demote, update_job_status, "
    "mark_canceled, mark_complete, complete_hpc_job_id, re-read of the job status) against one submission; a model "
    "tracks the submitter and, per handle, whether its copy of each file is older than the disk. Oracle: promotion "
    "through Cluster.deserialize succeeds iff nobody holds the role; every write from a handle whose copy of the "
    "file it writes is out of date raises ConfigVersionMismatch / JobStatusVersionMismatch and leaves the four "
    "cluster files byte-identical; every write from an up-to-date handle succeeds and the versions on disk never "
    "decrease; the content of the role field after every operation equals the model. Operations whose in-memory "
    "preconditions JADE asserts (demote by a handle that does not believe it is submitter, completing an id it does "
    "not list, mark_complete when already complete in its copy) and the mixed case 'config copy fresh, job status "
    "copy stale' for update_job_status are excluded by construction and counted. After a rejected write the operator "
    "deletes the deliberate deadlock marker. Half of the sequences end with a crash: one up-to-date handle's process is "
    "killed at a generated lock/file operation inside a write, the operator removes the stale lock, and every other "
    "handle then writes: whenever the data file on disk is newer than the handle's copy the write must be rejected and "
    "the files unchanged. processes: 2-4 try-submit-jobs / show-status / cancel-jobs processes, from the login host or up "
    "to three other hosts (several may share a host), started together in the middle of a generated submission, interleaved at lock- and file-operation "
    "granularity; oracle over the snapshots after every cluster-lock release: the role never passes from one host "
    "to another without being cleared in between and is cleared only by the process that took it, two processes are never inside a submitter round at the same "
    "time (submitter.lock intervals do not overlap), no job is handed to sbatch twice. non-trivial = handles: >= 1 "
    "refused promotion and >= 1 rejected stale write; processes: >= 1 refused promotion while another process was "
    "inside its round; distinct by hash of the case"
)
RULE += " Later additions (DESIGN.md 9): " + 'handle sequences may end with a crash inside a write followed by writes from every other handle; process bursts may contain cancel-jobs and several commands from one host, and the role must be cleared only by the process that took it; in 3/5 of the process cases resubmit-jobs is issued at the instant the completing process has set is_complete and still holds the role (that process held back 30-200 steps): the refused command must not change the cluster state.'
ASSUMPTIONS = C.WORLD_ASSUMPTIONS + [
    "handles sub-case: operations run one after another (the cluster lock serialises them anyway); hosts are distinct "
    "per handle (JADE identifies a submitter by hostname)",
]
setup, teardown = C.setup, C.teardown

OPS = ["load", "load_promote", "promote", "demote", "update", "mark_canceled", "mark_complete", "complete_hpc", "reread_jobs"]
# "crash": the handle's process dies in the middle of a write (at a generated lock/file operation); the operator removes
# the stale lock; every handle loaded before then tries to write its copy. Ends the sequence.
NOHOOKS = {"setup": False, "teardown": False, "node_setup": False, "node_teardown": False}

handle_cases = st.fixed_dictionaries({
    "kind": st.just("handles"),
    "njobs": st.integers(2, 5),
    "nhandles": st.integers(2, 4),
    "ops": st.lists(st.tuples(st.integers(0, 3), st.sampled_from(OPS + ["update", "load_promote", "demote"]), st.integers(0, 7)),
                    min_size=10, max_size=30),
    "lock_mode": st.sampled_from(["classic", "selfheal"]),
    "crash": st.one_of(st.none(), st.fixed_dictionaries({"slot": st.integers(0, 3), "what": st.sampled_from(["config", "jobs"]),
                                                         "at": st.integers(1, 12)})),
})


@st.composite
def process_cases(draw):
    scn = draw(gen.scenarios(min_jobs=3, max_jobs=8, max_groups=2))
    return {
        "kind": "processes",
        "scn": scn,
        "schedule": draw(gen.schedules(200)),
        "burst_at": draw(st.integers(10, 250)),
        "burst": draw(st.lists(st.sampled_from(["try", "try", "show", "cancel"]), min_size=2, max_size=4)),
        # the host each command of the burst is issued from: 0 = the login host (where submit-jobs ran), 1-3 = other hosts;
        # several commands may come from the same host (JADE identifies the submitter by host name)
        "burst_hosts": draw(st.lists(st.integers(0, 3), min_size=4, max_size=4)),
        "resubmit_at_completion": draw(st.sampled_from([None, None, 30, 80, 200])),
        "lock_mode": draw(st.sampled_from(["classic", "selfheal"])),
    }


def strategy(tier):
    return st.one_of(handle_cases, handle_cases, process_cases())


def disk_state(out):
    files = {}
    for f in W.CLUSTER_FILES:
        with W.REAL.open(os.path.join(out, f), "rb") as fh:
            files[f] = fh.read()
    cc = json.loads(files["cluster_config.json"])
    js = json.loads(files["job_status.json"])
    return files, cc, js


def run_handles(case, res):
    from jade.jobs.cluster import Cluster, ConfigVersionMismatch, JobStatusVersionMismatch
    from jade.models import JobState

    v = res["violations"]
    scn = {"jobs": [{"name": f"j{i}", "blocked_by": [], "cancel": False, "rc": 0, "est": 1, "group": 0} for i in range(case["njobs"])],
           "groups": [{"batch_size": 2, "time_based": False, "try_add": True, "walltime": 10, "nproc": 1, "cpus": 1}],
           "max_nodes": None, "poll": 1, "reports": False, "dry_run": False, "dsub": True, "mode": "hpc", "hooks": NOHOOKS}
    with H.Sim(scn, lock_mode=case["lock_mode"]) as sim:
        w = sim.w
        out = sim.out
        os.makedirs(out)
        cfg = H.make_config(scn)
        handles = {}
        model = {"submitter": None}
        counters = {"refused_promotions": 0, "rejected_stale_writes": 0, "accepted_writes": 0, "excluded_precondition": 0,
                    "excluded_mixed_staleness": 0, "operator_deleted_marker": 0}
        box = {}

        def in_proc(host, fn, crash_at=None):
            box.clear()
            if crash_at is not None:
                # the process is interleaved at file-operation granularity and killed when it reaches its crash_at-th
                # lock/file operation (that operation is not executed)
                w.file_yields = True
                try:
                    def body_c():
                        try:
                            box["ret"] = fn()
                        except (ConfigVersionMismatch, JobStatusVersionMismatch) as e:
                            box["mismatch"] = type(e).__name__
                        raise SystemExit(0)

                    vt = w.spawn(f"op{len(w.threads)}", host, w.base_env, body_c, "op")
                    start = w.steps
                    w.run(until=lambda ww: ww.steps >= start + crash_at or vt.state == "done")
                    if vt.state != "done":
                        w.kill(vt, why="crash")
                        box["killed"] = True
                    w.run()
                finally:
                    w.file_yields = False
                marker = os.path.join(out, "cluster_config.json.lock")
                if os.path.exists(marker):
                    W.REAL.remove(marker)
                    w._marker_times.pop(marker, None)
                    counters["operator_deleted_marker"] += 1
                return

            def body():
                try:
                    box["ret"] = fn()
                except (ConfigVersionMismatch, JobStatusVersionMismatch) as e:
                    box["mismatch"] = type(e).__name__
                except AssertionError as e:
                    box["assert"] = repr(e)
                raise SystemExit(0)

            vt = w.spawn(f"op{len(w.threads)}", host, w.base_env, body, "op")
            w.run()
            if vt.exc:
                box["exc"] = vt.exc
            marker = os.path.join(out, "cluster_config.json.lock")
            if os.path.exists(marker):
                W.REAL.remove(marker)  # the operator's documented manual recovery
                w._marker_times.pop(marker, None)
                counters["operator_deleted_marker"] += 1

        # creation by host "creator": promoted by construction, then demotes
        def create():
            c = Cluster.create(out, cfg)
            c.demote_from_submitter()

        in_proc("creator", create)
        if "exc" in box or "assert" in box:
            v.append(C.viol("C10:create-failed", f"{box}"))
            return
        applied = []

        def raw_state():
            files = {}
            for f in W.CLUSTER_FILES:
                try:
                    with W.REAL.open(os.path.join(out, f), "rb") as fh:
                        files[f] = fh.read()
                except FileNotFoundError:
                    files[f] = None
            vers = {}
            for f in ("cluster_config.json", "job_status.json"):
                try:
                    vers[f] = json.loads(files[f])["version"]
                except (TypeError, ValueError, KeyError):
                    vers[f] = None
            return files, vers

        def config_write(h, host):
            if h.config.submitter is None:
                return "promote", h.promote_to_submitter
            if h.config.submitter == host:
                return "demote", h.demote_from_submitter
            if not h.config.is_canceled:
                return "mark_canceled", h.mark_canceled
            return None, None

        def jobs_write(h):
            ids = list(h.job_status.hpc_job_ids)
            if ids:
                return "complete_hpc", (lambda: h.complete_hpc_job_id(ids[0]))
            return None, None

        def crash_probe(spec):
            """One handle's process dies inside a write; then every other handle (all loaded before) tries to write."""
            slot = spec["slot"] % case["nhandles"]
            g, host = handles.get(slot), f"h{slot}"
            files0, vers0 = raw_state()
            target = "cluster_config.json" if spec["what"] == "config" else "job_status.json"
            if None in vers0.values():
                counters["excluded_precondition"] += 1
                return
            if g is None or g.config.version != vers0["cluster_config.json"] or g.job_status.version != vers0["job_status.json"]:
                # the process that is going to die works on an up-to-date copy (otherwise its write is rejected at once)
                in_proc(host, lambda: Cluster.deserialize(out, try_promote_to_submitter=False, deserialize_jobs=True))
                if "ret" not in box:
                    counters["excluded_precondition"] += 1
                    return
                g = handles[slot] = box["ret"][0]
            opname, fn = config_write(g, host) if spec["what"] == "config" else jobs_write(g)
            if fn is None:
                counters["excluded_precondition"] += 1
                return
            in_proc(host, fn, crash_at=spec["at"])
            if not box.get("killed"):
                return  # the write finished before the crash point: nothing new
            res["classes"].append("crash_inside_write")
            applied.append((host, "crash:" + opname, f"at operation {spec['at']}"))
            for s2 in sorted(handles):
                if s2 == slot:
                    continue
                h, host2 = handles[s2], f"h{s2}"
                files1, vers1 = raw_state()
                mine = h.config.version if target == "cluster_config.json" else h.job_status.version
                newer = vers1[target] is not None and vers1[target] > mine
                op2, fn2 = config_write(h, host2) if target == "cluster_config.json" else jobs_write(h)
                if fn2 is None:
                    continue
                in_proc(host2, fn2)
                files2, _ = raw_state()
                if newer:
                    res["classes"].append("crash_left_newer_data_than_a_handle_copy")
                    counters["rejected_stale_writes"] += 1
                    if "ret" in box:
                        v.append(C.viol(f"C10:stale-write-not-rejected|after-crash|{op2}", f"{host} died inside {opname} (at its operation "
                                        f"{spec['at']}) leaving {target} at version {vers1[target]}; {host2} holds version {mine} and its "
                                        f"{op2} was accepted: {box}"))
                    if files2 != files1:
                        changed = [f for f in files1 if files1[f] != files2[f]]
                        v.append(C.viol(f"C10:stale-write-changed-files|after-crash|{op2}", f"{host} died inside {opname} leaving {target} at "
                                        f"version {vers1[target]}; {host2}.{op2} from version {mine} changed {changed}"))
                    applied.append((host2, op2, "rejected" if "ret" not in box else "NOT-REJECTED"))
                if v:
                    return

        for slot, op, arg in case["ops"]:
            slot = slot % case["nhandles"]
            host = f"h{slot}"
            files_before, cc, js = disk_state(out)
            h = handles.get(slot)
            if op in ("load", "load_promote"):
                want = op == "load_promote" and cc["submitter"] is None
                in_proc(host, lambda: Cluster.deserialize(out, try_promote_to_submitter=(op == "load_promote"), deserialize_jobs=True))
                if "ret" not in box:
                    v.append(C.viol("C10:load-failed", f"{op} on a consistent directory failed: {box}"))
                    break
                cl, promoted = box["ret"]
                handles[slot] = cl
                if promoted != want:
                    v.append(C.viol("C10:promotion-wrong" + ("|granted-while-held" if promoted else "|refused-while-free"),
                                    f"{host} loaded with try_promote; submitter on disk was {cc['submitter']!r}; promoted={promoted}"))
                if op == "load_promote" and not want:
                    counters["refused_promotions"] += 1
                if promoted:
                    model["submitter"] = host
                applied.append((host, op, "promoted" if promoted else "loaded"))
            else:
                if h is None:
                    continue
                stale_cfg = h.config.version != cc["version"]
                stale_js = h.job_status.version != js["version"]
                writes_cfg = op in ("promote", "demote", "update", "mark_canceled", "mark_complete")
                fn = None
                if op == "promote":
                    if h.config.submitter is not None:
                        # its copy says the role is taken: returns False without touching the disk
                        in_proc(host, h.promote_to_submitter)
                        if box.get("ret") is not False or disk_state(out)[0] != files_before:
                            v.append(C.viol("C10:promotion-wrong|granted-while-held", f"{host}.promote_to_submitter() with submitter "
                                            f"{h.config.submitter!r} in its copy: {box}"))
                        counters["refused_promotions"] += 1
                        applied.append((host, op, "refused"))
                        continue
                    fn = h.promote_to_submitter
                elif op == "demote":
                    if h.config.submitter != host:
                        counters["excluded_precondition"] += 1
                        continue
                    fn = h.demote_from_submitter
                elif op == "mark_canceled":
                    fn = h.mark_canceled
                elif op == "mark_complete":
                    if h.config.is_complete:
                        counters["excluded_precondition"] += 1
                        continue
                    fn = h.mark_complete
                elif op == "complete_hpc":
                    ids = list(h.job_status.hpc_job_ids)
                    if not ids:
                        counters["excluded_precondition"] += 1
                        continue
                    jid = ids[arg % len(ids)]
                    fn = lambda: h.complete_hpc_job_id(jid)  # noqa: E731
                elif op == "reread_jobs":
                    in_proc(host, h.deserialize_jobs)
                    if "exc" in box or "mismatch" in box:
                        v.append(C.viol("C10:read-failed", f"{box}"))
                    applied.append((host, op, "read"))
                    continue
                elif op == "update":
                    if stale_js and not stale_cfg:
                        counters["excluded_mixed_staleness"] += 1
                        continue
                    jobs = list(h.iter_jobs())
                    ns = [j for j in jobs if j.state == JobState.NOT_SUBMITTED]
                    sub = [j for j in jobs if j.state == JobState.SUBMITTED]
                    to_submit = ns[: 1 + arg % 2] if arg % 3 else []
                    done = {j.name for j in sub[: arg % 2 + (1 if arg > 4 else 0)]}
                    ids = list(h.job_status.hpc_job_ids) + ([str(1000 + len(applied))] if to_submit else [])
                    bi = h.job_status.batch_index + (1 if to_submit else 0)
                    fn = lambda: h.update_job_status(to_submit, [], [], done, ids, bi)  # noqa: E731
                stale = stale_cfg if writes_cfg else stale_js
                in_proc(host, fn)
                files_after, cc2, js2 = disk_state(out)
                if stale:
                    if "mismatch" not in box:
                        v.append(C.viol(f"C10:stale-write-not-rejected|{op}", f"{host}.{op} with an out-of-date copy (its config v"
                                        f"{h.config.version} / job status v{h.job_status.version}; disk v{cc['version']} / v{js['version']}) "
                                        f"was not rejected: {box}"))
                    if files_after != files_before:
                        changed = [f for f in files_before if files_before[f] != files_after[f]]
                        v.append(C.viol(f"C10:stale-write-changed-files|{op}", f"{host}.{op} from an out-of-date copy changed {changed}: "
                                        f"e.g. submitter {cc['submitter']!r}->{cc2['submitter']!r} is_canceled {cc['is_canceled']}->"
                                        f"{cc2['is_canceled']} versions {cc['version']}/{js['version']}->{cc2['version']}/{js2['version']}"))
                    counters["rejected_stale_writes"] += 1
                    applied.append((host, op, "rejected" if "mismatch" in box else "NOT-REJECTED"))
                else:
                    if "mismatch" in box or "exc" in box or "assert" in box:
                        v.append(C.viol(f"C10:fresh-write-rejected|{op}", f"{host}.{op} from an up-to-date copy failed: {box}"))
                    elif cc2["version"] < cc["version"] or js2["version"] < js["version"]:
                        v.append(C.viol("C10:version-decreased", f"{op}: {cc['version']}/{js['version']} -> {cc2['version']}/{js2['version']}"))
                    counters["accepted_writes"] += 1
                    if op == "promote" and box.get("ret") is True:
                        if cc["submitter"] is not None:
                            v.append(C.viol("C10:promotion-wrong|granted-while-held", f"{host} promoted while {cc['submitter']} holds the role"))
                        model["submitter"] = host
                    if op == "demote" and "mismatch" not in box:
                        model["submitter"] = None
                    applied.append((host, op, "ok"))
                if v:
                    break
            cc_now = disk_state(out)[1]
            if cc_now["submitter"] != model["submitter"]:
                v.append(C.viol("C10:role-field-differs-from-model", f"after {applied[-1] if applied else None}: submitter on disk "
                                f"{cc_now['submitter']!r}, model {model['submitter']!r}"))
                break
        if case.get("crash") and not v:
            crash_probe(case["crash"])
        res["counters"].update(counters)
        res["nontrivial"] = counters["refused_promotions"] >= 1 and counters["rejected_stale_writes"] >= 1
        if res["nontrivial"] or v:
            res["sample"] = {"kind": "handles", "ops": [list(a) for a in applied][:40], "lock_mode": case["lock_mode"]}
        if v:
            res["replay_log"] = [list(a) for a in applied]


def run_processes(case, res):
    v = res["violations"]
    scn = case["scn"]
    with H.Sim(scn, schedule=case["schedule"], lock_mode=case["lock_mode"], file_yields=True, snapshots=True, max_steps=30000) as sim:
        w = sim.w
        st_ = {}

        def pred(ww):
            if not os.path.exists(os.path.join(sim.out, "submitter_groups.json")):
                return False
            st_.setdefault("t0", ww.steps)
            return ww.steps - st_["t0"] >= case["burst_at"]

        def fire(ww):
            if sim.is_complete():
                return
            hosts = case.get("burst_hosts")
            for i, k in enumerate(case["burst"]):
                args = {"try": ["try-submit-jobs", sim.out], "show": ["show-status", "-o", sim.out, "-n"],
                        "cancel": ["cancel-jobs", sim.out]}[k]
                host = f"userhost{i}" if hosts is None else ("login1" if hosts[i] == 0 else f"userhost{hosts[i]}")
                sim.user_cmd(args, host=host, name=f"burst{i}")
            if hosts is not None and len({hosts[i] for i in range(len(case["burst"]))}) < len(case["burst"]):
                res["classes"].append("burst_with_commands_from_one_host")
            st_["fired"] = len(ww.log)

        w.user_events.append(("burst", pred, fire, True))
        if case.get("resubmit_at_completion"):
            # resubmit-jobs issued at the instant the completing process has set is_complete and still holds the role,
            # while that process is slow (held back for a generated number of steps): the command is refused promotion
            # for as long as it likes to retry and must leave the state alone
            def at_completion(ww):
                cc = sim.cluster_config()
                return bool(cc and cc.get("is_complete") and cc.get("submitter"))

            def resubmit(ww):
                for t in ww.threads:
                    if t.state != "done" and not t.dead:
                        t.paused_until = ww.steps + case["resubmit_at_completion"]
                        # the flag is written inside the cluster lock: the holder is slow right after it leaves that section
                        t.pause_next_release = case["resubmit_at_completion"]
                sim.user_cmd(["resubmit-jobs", sim.out, "--successful"], host="userhost9", name="resubmit")
                st_["resubmit"] = len(ww.log)
                res["classes"].append("resubmit_while_completing_process_holds_role")

            w.cond_events.append(("resubmit", at_completion, resubmit))
        sim.submit()
        outcome = sim.drive()
        if "resubmit" in st_ and outcome == "complete":
            outcome = sim.drive()
        if outcome == "budget":
            res["inconclusive"] = "step-budget"
        # role never passes from host to host without being cleared
        prev = None
        holder = None
        for s in w.snaps:
            try:
                cc = json.loads(s["files"]["cluster_config.json"] or "null")
            except ValueError:
                cc = None
            if cc is None:
                continue
            # the role is released only by the process that took it (two processes of one host look alike in the file)
            if prev is not None and not prev["submitter"] and cc["submitter"]:
                holder = s["by"]
            elif prev is not None and prev["submitter"] and not cc["submitter"]:
                if holder is not None and s["by"] != holder:
                    v.append(C.viol("C10:role-released-by-a-process-that-does-not-hold-it",
                                    f"the role taken by {holder} (host {prev['submitter']}) was cleared by {s['by']}"))
                holder = None
            if prev is not None and prev["submitter"] and holder is not None and s["by"] != holder and cc["version"] != prev["version"] \
                    and s["by"].split("#")[0].endswith("resubmit"):
                v.append(C.viol("C10:state-written-by-a-process-refused-the-role",
                                f"while {holder} (host {prev['submitter']}) holds the role, {s['by']} changed the cluster state "
                                f"(config version {prev['version']} -> {cc['version']}, is_complete {prev.get('is_complete')} -> "
                                f"{cc.get('is_complete')})"))
            if prev is not None and prev["submitter"] and cc["submitter"] and prev["submitter"] != cc["submitter"]:
                v.append(C.viol("C10:role-taken-over-while-held", f"submitter changed from {prev['submitter']} to {cc['submitter']} without "
                                f"being cleared (lock release by {s['by']})"))
            if prev is not None and cc["version"] < prev["version"]:
                v.append(C.viol("C10:config-version-went-back", f"{prev['version']} -> {cc['version']} (by {s['by']})"))
            prev = cc
        # rounds never overlap
        inside = None
        refused_during_round = 0
        for r in w.log:
            if r["k"] == "sublock":
                if r["op"] == "create":
                    if inside is not None and inside != r["by"]:
                        v.append(C.viol("C10:two-submitter-rounds-overlap", f"{r['by']} entered a submitter round while {inside} was inside one"))
                    inside = r["by"]
                elif r["op"] == "remove" and inside == r["by"]:
                    inside = None
            elif r["k"] == "proc_end" and r.get("kind") == "try-submit-jobs" and inside is not None and inside != r.get("name") \
                    and r.get("exit") == 0 and not r.get("exc"):
                refused_during_round += 1
        placed = {}
        for r in w.events("sbatch"):
            if "resubmit" in st_ and r["i"] > st_["resubmit"]:
                continue  # a resubmission that was accepted (the holder had finished) legitimately hands jobs to the HPC again
            for j in r["jobs"]:
                placed.setdefault(j, []).append(r["batch"])
        for j, b in sorted(placed.items()):
            if len(b) > 1:
                v.append(C.viol("C10:job-in-two-batches", f"job {j} in batches {b}"))
        res["counters"]["refused_while_other_in_round"] = refused_during_round
        res["nontrivial"] = "fired" in st_ and refused_during_round >= 1
        res["classes"].append("burst:" + str(len(case["burst"])))
        if res["nontrivial"] or v:
            res["sample"] = C.sample_of(case, sim, {"kind": "processes", "burst": case["burst"], "burst_at": case["burst_at"]})
        if v:
            res["replay_log"] = w.abridged_log(200)


def run_case(case):
    res = {"violations": [], "classes": ["kind:" + case["kind"], "lock:" + case["lock_mode"]], "nontrivial": False, "sample": None,
           "inconclusive": None, "counters": {}}
    {"handles": run_handles, "processes": run_processes}[case["kind"]](case, res)
    return res
