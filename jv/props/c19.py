"""C19 -- jobs are launched exactly as configured and their real exit status is recorded (real processes)."""

import os
import shutil
import stat
import time

from hypothesis import strategies as st

from jv.props import direct as D

ID = "C19"
LEVEL = "exploration"
BUDGET = {"quick": 4000, "thorough": 64000}
RULE = (
    "case = argument LIST (0-6 tokens of arbitrary text without NUL: quotes, backslashes, $, globs, #, blanks, "
    "newlines, unicode, empty strings) rendered to a command string by an independent POSIX quoter that chooses per "
    "token among single quotes, double quotes with \\\\-escapes, backslash escaping of bare words and mixtures, "
    "joined by generated blanks; a legal job name ([\\w.-]+); append_job_name / append_output_dir; exit code 0-255; "
    "HPC job id. The program is a tiny /bin/sh probe that writes \"$@\" NUL-separated, its environment and cwd to a "
    "side file, prints markers to stdout/stderr and exits with the requested code. It is run for real through "
    "GenericCommandExecution.generate_command + AsyncCliCommand.run / is_complete (and for ~1/4 of the cases as a "
    "2-3 job batch through JobRunner.run_jobs under SLURM_* variables). Oracle: probe argv == the original list (+ the "
    "two documented arguments when requested, in the documented order); JADE_JOB_NAME and JADE_RUNTIME_OUTPUT set; "
    "markers in job-stdio/<name>.o / .e of that job only; the row read back through ResultsAggregator has the name, "
    "the real exit code, status 'finished' and the HPC job id. non-trivial = >= 1 token that needs quoting; distinct "
    "by hash of the case"
)
RULE += " Later additions (DESIGN.md 9): " + 'names include look-alikes (None, null, nan, True, 0, name, ...); half of the batch cases create the configuration from a commands file (one command per line, GenericCommandConfiguration.auto_config, what `jade config create` does).'
ASSUMPTIONS = [
    "'POSIX shell rules' = quoting and word splitting (what shlex in POSIX mode implements); no expansion happens "
    "because no shell is involved -- $, globs and backticks are ordinary characters",
    "real child processes on this machine (/bin/sh); wall-clock is only used to poll for their exit",
]
setup, teardown = D.setup, D.teardown

SAFE = set("abcdefghijklmnopqrstuvwxyzABCDEFGHIJKLMNOPQRSTUVWXYZ0123456789_-./=:,@%+")
TOKEN = st.one_of(
    st.text(alphabet=st.sampled_from(list("ab1 _-./=:#$*?'\"\\`!&|;<>()[]{}~\t")), max_size=8),
    st.text(alphabet=st.characters(blacklist_categories=["Cs"], blacklist_characters="\x00"), max_size=8),
    st.sampled_from(["", " ", "#", "a#b", "#7", "--tag=#7", "it's", 'say "hi"', "a\\b", "$HOME", "*.txt", "a b", "x\ny", "é✓", "\\", "''", '""']),
)
STYLE = st.sampled_from(["single", "double", "bare", "mixed"])
_PLAIN_NAME = st.from_regex(r"[\w.-]{1,16}", fullmatch=True).filter(lambda s: s.strip() == s and s not in (".", "..") and "\n" not in s)
# legal names that look like something else to a careless reader of the CSV / JSON files
NAME = st.one_of(_PLAIN_NAME, _PLAIN_NAME, _PLAIN_NAME, _PLAIN_NAME, _PLAIN_NAME, _PLAIN_NAME, _PLAIN_NAME,
                 st.sampled_from(["None", "none", "null", "nan", "NaN", "True", "false", "0", "-1", "1e5", "name", "inf"]))


def strategy(tier):
    return st.fixed_dictionaries({
        "tokens": st.lists(st.tuples(TOKEN, STYLE), max_size=6),
        "seps": st.lists(st.text(alphabet=" \t", min_size=1, max_size=3), min_size=8, max_size=8),
        "name": NAME,
        "append_job_name": st.booleans(),
        "append_output_dir": st.booleans(),
        "rc": st.one_of(st.sampled_from([0, 0, 1, 2, 127, 255]), st.integers(0, 255)),
        "hpc_job_id": st.integers(1, 10 ** 8).map(str),
        "batch": st.sampled_from([False] * 3 + [True]),
        # batches only: the configuration is created from a commands file (one command per line), as `jade config create` does
        "from_file": st.booleans(),
        "extra_jobs": st.integers(1, 2),
    })


def q_single(t):
    return "'" + t + "'" if "'" not in t else None


def q_double(t):
    return '"' + t.replace("\\", "\\\\").replace('"', '\\"') + '"'


def q_bare(t):
    if t == "" or "\n" in t:
        return None
    out = []
    for i, ch in enumerate(t):
        if ch in SAFE or (ch == "#" and i > 0) or ord(ch) > 127 and not ch.isspace():
            out.append(ch)
        else:
            out.append("\\" + ch)
    return "".join(out)


def quote(token, style):
    """Independent POSIX quoting of one word."""
    if style == "single":
        return q_single(token) or q_double(token)
    if style == "double":
        return q_double(token)
    if style == "bare":
        return q_bare(token) or q_double(token)
    # mixed: split the word in two pieces quoted differently and concatenated
    if len(token) < 2:
        return q_double(token)
    h = len(token) // 2
    a, b = token[:h], token[h:]
    return (q_single(a) or q_double(a)) + (q_bare(b) or q_double(b))


def needs_quoting(t):
    return t == "" or any(ch not in SAFE for ch in t)


PROBE = r"""#!/bin/sh
rc="$1"; shift
f="$PROBE_DIR/$JADE_JOB_NAME"
: > "$f.args"
for a in "$@"; do printf '%s\0' "$a" >> "$f.args"; done
printf '%s\0%s\0%s\0' "$JADE_JOB_NAME" "$JADE_RUNTIME_OUTPUT" "$PWD" > "$f.env"
printf 'OUT-MARKER-%s\n' "$JADE_JOB_NAME"
printf 'ERR-MARKER-%s\n' "$JADE_JOB_NAME" >&2
exit "$rc"
"""


def read_nul(path):
    with open(path, "rb") as f:
        data = f.read()
    parts = data.split(b"\0")
    assert parts[-1] == b""
    return [p.decode("utf-8", "surrogateescape") for p in parts[:-1]]


def make_command(probe, rc, tokens, seps):
    words = [quote(probe, "single"), str(rc)] + [quote(t, s) for t, s in tokens]
    if words[-1] != words[-1].strip():
        # the public model strips surrounding blanks from the command string: a trailing backslash-escaped blank
        # would be cut in half, so the last word is quoted instead
        words[-1] = q_double(tokens[-1][0])
    cmd = words[0]
    for i, w in enumerate(words[1:]):
        cmd += seps[i % len(seps)] + w
    return cmd


def check_job(v, out, probe_dir, name, tokens, append_job_name, append_output_dir, rc, hpc_job_id, result):
    want = [t for t, _ in tokens]
    if append_job_name:
        want.append(f"--jade-job-name={name}")
    if append_output_dir:
        want.append(f"--jade-runtime-output={out}")
    try:
        argv = read_nul(os.path.join(probe_dir, name + ".args"))
        env = read_nul(os.path.join(probe_dir, name + ".env"))
    except (FileNotFoundError, AssertionError) as e:
        v.append(D.viol("C19:job-not-launched", f"job {name!r}: probe did not run ({e!r})"))
        return
    if argv != want:
        v.append(D.viol("C19:argv-differs", f"job {name!r}: configured arguments {want!r}, process received {argv!r}"))
    if env[0] != name or env[1] != str(out):
        v.append(D.viol("C19:environment-differs", f"job {name!r}: JADE_JOB_NAME={env[0]!r} JADE_RUNTIME_OUTPUT={env[1]!r} expected {name!r} {out!r}"))
    try:
        o = open(os.path.join(out, "job-stdio", name + ".o"), encoding="utf-8", errors="replace").read()
        e = open(os.path.join(out, "job-stdio", name + ".e"), encoding="utf-8", errors="replace").read()
    except FileNotFoundError:
        v.append(D.viol("C19:stdio-files-missing", f"job {name!r}: job-stdio/{name}.o / .e do not exist; directory holds "
                        f"{sorted(os.listdir(os.path.join(out, 'job-stdio')))[:6]}"))
        return
    if o != f"OUT-MARKER-{name}\n" or e != f"ERR-MARKER-{name}\n":
        v.append(D.viol("C19:stdio-files-differ", f"job {name!r}: .o={o!r} .e={e!r}"))
    if result is None:
        v.append(D.viol("C19:no-result-row", f"job {name!r} has no result row"))
    elif (result.name, result.return_code, result.status, result.hpc_job_id) != (name, rc, "finished", hpc_job_id):
        v.append(D.viol("C19:result-row-differs", f"job {name!r} exited {rc} on HPC job {hpc_job_id}: recorded "
                        f"({result.name!r}, {result.return_code}, {result.status}, {result.hpc_job_id!r})"))


def run_case(case):
    from jade.extensions.generic_command import GenericCommandConfiguration, GenericCommandExecution, GenericCommandParameters
    from jade.jobs.async_cli_command import AsyncCliCommand
    from jade.jobs.results_aggregator import ResultsAggregator

    res = D.result()
    v = res["violations"]
    base = D.fresh_dir()
    out = os.path.join(base, "out")
    probe_dir = os.path.join(base, "probe out")  # a blank in the path on purpose
    for d in (out, probe_dir, os.path.join(out, "job-stdio"), os.path.join(out, "results"), os.path.join(out, "job-outputs")):
        os.makedirs(d)
    probe = os.path.join(probe_dir, "probe.sh")
    with open(probe, "w") as f:
        f.write(PROBE)
    os.chmod(probe, os.stat(probe).st_mode | stat.S_IEXEC)
    saved_env = dict(os.environ)
    os.environ["PROBE_DIR"] = probe_dir
    try:
        cmd = make_command(probe, case["rc"], case["tokens"], case["seps"])
        name = case["name"]
        if not case["batch"]:
            job = GenericCommandParameters(name=name, command=cmd, append_job_name=case["append_job_name"],
                                           append_output_dir=case["append_output_dir"])
            job.job_id = 1
            full = GenericCommandExecution.generate_command(job, os.path.join(out, "job-outputs"), None)
            ac = AsyncCliCommand(job, full, out, 7, True, case["hpc_job_id"])
            try:
                ac.run()
            except Exception as e:  # noqa: BLE001  a legal command must be launched, not rejected
                v.append(D.viol(f"C19:launch-raised|{type(e).__name__}", f"command {cmd[cmd.index('probe.sh') + 9:]!r}: launching raised "
                                f"{type(e).__name__}: {str(e)[:200]}"))
                res["sample"] = {"tokens": [t for t, _ in case["tokens"]]}
                return res
            deadline = time.monotonic() + 30
            while not ac.is_complete():
                if time.monotonic() > deadline:
                    res["inconclusive"] = "probe-timeout"
                    return res
                time.sleep(0.002)
            if ac.return_code != case["rc"]:
                v.append(D.viol("C19:return-code-property-differs", f"return_code {ac.return_code}, process exited {case['rc']}"))
            ResultsAggregator.create(out)
            agg = ResultsAggregator.load(out)
            new = agg.process_results()
            rows = {r.name: r for r in ResultsAggregator.list_results(out)}
            if [r.name for r in new] != [name]:
                v.append(D.viol("C19:collected-results-differ", f"collected {[r.name for r in new]}, expected [{name!r}]"))
            check_job(v, out, probe_dir, name, case["tokens"], case["append_job_name"], case["append_output_dir"], case["rc"],
                      case["hpc_job_id"], rows.get(name))
        else:
            from jade.jobs.job_runner import JobRunner
            from jade.models import HpcConfig, SlurmConfig, SubmissionGroup, SubmitterParams

            hpc = HpcConfig(hpc_type="slurm", hpc=SlurmConfig(account="a"))
            sp = SubmitterParams(hpc_config=hpc, poll_interval=0, resource_monitor_type="none", resource_monitor_interval=None,
                                 num_processes=2)
            cfg = GenericCommandConfiguration(submission_groups=[SubmissionGroup(name="g", submitter_params=sp).dict()])
            specs = [(name, case["tokens"], case["rc"])]
            for k in range(case["extra_jobs"]):
                specs.append((f"{name}-x{k}", case["tokens"][k:], (case["rc"] + 1 + k) % 256))
            if case.get("from_file") and not any(ch in t for t, _ in case["tokens"] for ch in "\n\r"):
                # one command per line (a line ends at \n / \r only); the jobs are then named by their ids 1, 2, ...
                specs = [(str(i + 1), toks, rc) for i, (_, toks, rc) in enumerate(specs)]
                cmdfile = os.path.join(base, "commands.txt")
                with open(cmdfile, "w", newline="") as f:
                    for nm, toks, rc in specs:
                        f.write(make_command(probe, rc, toks, case["seps"]) + "\n")
                cfg = GenericCommandConfiguration.auto_config(cmdfile, append_job_name=case["append_job_name"],
                                                              append_output_dir=case["append_output_dir"],
                                                              submission_groups=[SubmissionGroup(name="g", submitter_params=sp).dict()])
                if cfg.get_num_jobs() != len(specs):
                    v.append(D.viol("C19:commands-file-job-count", f"{len(specs)} command lines gave {cfg.get_num_jobs()} jobs: "
                                    f"{[j.command[-40:] for j in cfg.iter_jobs()]}"))
                    res["sample"] = {"tokens": [t for t, _ in case["tokens"]]}
                    return res
                for j in cfg.iter_jobs():
                    j.submission_group = "g"
                res["classes"].append("config_from_commands_file")
            else:
                for nm, toks, rc in specs:
                    cfg.add_job(GenericCommandParameters(name=nm, command=make_command(probe, rc, toks, case["seps"]),
                                                         append_job_name=case["append_job_name"], append_output_dir=case["append_output_dir"],
                                                         submission_group="g"))
            os.environ.update(SLURM_JOB_ID=case["hpc_job_id"], SLURM_NODEID="0", SLURM_CPUS_ON_NODE="2",
                              LOCAL_SCRATCH=os.path.join(base, "scratch"))
            os.makedirs(os.environ["LOCAL_SCRATCH"])
            cfg.dump(os.path.join(out, "config.json"))
            try:
                JobRunner(cfg, out, batch_id=3).run_jobs(distributed_submitter=False, num_parallel_processes_per_node=2)
            except Exception as e:  # noqa: BLE001
                v.append(D.viol(f"C19:batch-run-raised|{type(e).__name__}", f"JobRunner.run_jobs raised {type(e).__name__}: {str(e)[:200]}"))
                res["sample"] = {"tokens": [t for t, _ in case["tokens"]]}
                return res
            ResultsAggregator.create(out)
            ResultsAggregator.load(out).process_results()
            rows = {r.name: r for r in ResultsAggregator.list_results(out)}
            if sorted(rows) != sorted(s[0] for s in specs):
                v.append(D.viol("C19:batch-results-differ", f"rows for {sorted(rows)}; jobs {sorted(s[0] for s in specs)}"))
            for nm, toks, rc in specs:
                check_job(v, out, probe_dir, nm, toks, case["append_job_name"], case["append_output_dir"], rc, case["hpc_job_id"], rows.get(nm))
            res["classes"].append("through_job_runner")
        res["nontrivial"] = any(needs_quoting(t) for t, _ in case["tokens"])
        if any("#" in t for t, _ in case["tokens"]):
            res["classes"].append("token_with_hash")
        if any(t == "" for t, _ in case["tokens"]):
            res["classes"].append("empty_token")
        if res["nontrivial"] or v:
            res["sample"] = {"command": cmd[cmd.index("probe.sh") + 9:][:200], "tokens": [t for t, _ in case["tokens"]], "name": name, "rc": case["rc"]}
        return res
    finally:
        os.environ.clear()
        os.environ.update(saved_env)
        shutil.rmtree(base, ignore_errors=True)
