"""C05 -- a submission makes progress and completes exactly once (bounded liveness)."""

import json
import os

from hypothesis import strategies as st

from jv import gen
from jv import hpcsim as H
from jv.props import common as C

ID = "C05"
LEVEL = "exploration"
BUDGET = {"quick": 4000, "thorough": 48000}
RULE = (
    "case = generated scenario x schedule x up to 3 user commands (try-submit-jobs / show-status -n) fired by the "
    "schedule at arbitrary moments x recovery style (try-submit-jobs or show-status -n) x up to 2 commands after "
    "completion; oracles: (a) every recovery round started when the world is quiescent (no live process, no "
    "queued/running batch) and the submission incomplete records >= 1 new sbatch or leaves the submission "
    "complete, and completion is reached within #jobs+3 such rounds; (b) at the end of every submitter round "
    "(removal of submitter.lock), a not-submitted job all of whose blockers have rows in processed_results.csv "
    "implies that the number of active batch ids the round persisted equals max_nodes; (c) is_complete flips "
    "false->true exactly once, at that instant results.json exists and lists every job and completed_jobs == "
    "num_jobs, results.json is written once, no process tries to complete an already complete submission, no lock "
    "marker is left behind, and no sbatch follows (also not from commands issued afterwards); non-trivial = >= 1 recovery "
    "round or >= 3 submitter rounds; distinct by hash of the case"
)
RULE += " Later additions (DESIGN.md 9): " + 'one operator command bound to the end of a batch and held back between two lock holds; a fifth of the cases at file-operation granularity; a third continue with resubmit-jobs after completion: the rerun must make progress in every recovery round and complete again without missing jobs.'
ASSUMPTIONS = C.WORLD_ASSUMPTIONS + [
    "liveness is checked as bounded progress per recovery round, not as unbounded 'eventually'",
    "fault-free runs only (no killed process, no failing command)",
]
setup, teardown = C.setup, C.teardown


def strategy(tier):
    return st.fixed_dictionaries({
        "scn": gen.scenarios(),
        "schedule": gen.schedules(),
        "user": st.lists(st.sampled_from(["try", "show"]), max_size=3),
        "recover": st.sampled_from(["try", "try", "show"]),
        "post": st.lists(st.sampled_from(["try", "show"]), max_size=2),
        # a fifth of the cases are interleaved at file-operation granularity too
        "file_yields": st.sampled_from([False, False, False, False, True]),
        # operator commands bound to the end of a batch, held back between two lock holds (common.late_ops)
        "late": C.late_ops(),
        "rerun": st.sampled_from([None, None, None, None, {"successful": False}, {"successful": True}]),
    })


def _cmd(sim, kind):
    if kind == "try":
        return ["try-submit-jobs", sim.out]
    return ["show-status", "-o", sim.out, "-n"]


def run_case(case):
    scn = case["scn"]
    with H.Sim(scn, schedule=case["schedule"], snapshots=True, file_yields=case.get("file_yields", False),
               max_steps=30000 if case.get("file_yields") else 8000) as sim:
        w = sim.w
        rounds = []  # observations at the end of each submitter round

        def observer(rec):
            if rec["k"] == "sublock" and rec["op"] == "remove":
                js = H.read_json(os.path.join(rec["dir"], "job_status.json"))
                done = {parts[0] for f, parts in H.W.read_result_rows(rec["dir"]) if f == "processed_results.csv"}
                rounds.append({"i": rec["i"], "by": rec["by"], "js": js, "processed": done})

        w.observers.append(observer)
        w.fs_watch.add("results.json")
        have_cluster = lambda ww: os.path.exists(os.path.join(sim.out, "submitter_groups.json"))  # noqa: E731  (Cluster.create returned)
        for k in case["user"]:
            w.user_events.append((k, have_cluster, (lambda kk: lambda ww: sim.user_cmd(_cmd(sim, kk)))(k)))
        C.install_late_ops(sim, case.get("late"))
        sim.submit()

        v = []
        n_jobs = len(scn["jobs"])

        # drive with recovery, checking (a)
        def drive_checked(tag=""):
            outcome = None
            while True:
                if not w.run():
                    outcome = "budget"
                    break
                if sim.is_complete():
                    outcome = "complete"
                    break
                if w.live_threads():
                    outcome = "stuck:live-threads"
                    break
                if sim.cluster_config() is None:
                    outcome = "stuck:no-cluster-config"
                    break
                if sim.recovery_rounds >= n_jobs + 3:
                    v.append(C.viol("C05:not-complete-after-bounded-recovery",
                                    f"{tag}submission still incomplete after {sim.recovery_rounds} recovery rounds"))
                    outcome = "stuck:rounds"
                    break
                w.user_events.clear()
                sim.recovery_rounds += 1
                before = len(w.events("sbatch"))
                w.note("recovery", n=sim.recovery_rounds, how=case["recover"])
                vt = sim.user_cmd(_cmd(sim, case["recover"]), name=f"recover{sim.recovery_rounds}")
                if not w.run():
                    outcome = "budget"
                    break
                after = len(w.events("sbatch"))
                if after == before and not sim.is_complete():
                    excs = sim.exceptions()
                    v.append(C.viol("C05:recovery-round-no-progress",
                                    f"{tag}recovery round {sim.recovery_rounds} ({case['recover']}) started with no live process and "
                                    f"no queued/running batch; it neither submitted a batch nor completed the submission; "
                                    f"exit={vt.exit} exceptions={excs[-2:]}"))
                    outcome = "stuck:no-progress"
                    break

            return outcome

        outcome = drive_checked()

        res = C.base_result(case, sim, outcome if not outcome.startswith("stuck:no-progress") and outcome != "stuck:rounds" else "complete")
        res["violations"] = v
        if v:
            res["inconclusive"] = None

        # (b) ready-but-unsubmitted only when max_nodes binds
        mx = scn["max_nodes"]
        jobs = {j["name"]: j for j in scn["jobs"]}
        ready_unsubmitted = 0
        for r in rounds:
            js = r["js"]
            if not js:
                continue
            active = len(js["hpc_job_ids"])
            for j in js["jobs"]:
                if j["state"] == "not_submitted" and set(jobs[j["name"]]["blocked_by"]) <= r["processed"]:
                    ready_unsubmitted += 1
                    if mx is None or active != mx:
                        v.append(C.viol("C05:ready-job-left-unsubmitted",
                                        f"round by {r['by']} ended with job {j['name']} not submitted although all its "
                                        f"blockers {jobs[j['name']]['blocked_by']} have collected results; active batch ids "
                                        f"persisted: {js['hpc_job_ids']}, max_nodes={mx}"))
        res["counters"]["submitter_rounds"] = len(rounds)
        res["counters"]["ready_unsubmitted_maxnodes_binding"] = ready_unsubmitted

        # (c) single completion
        flips = []
        prev = False
        for s in w.snaps:
            cc = s["files"].get("cluster_config.json")
            try:
                cc = json.loads(cc) if cc else None
            except ValueError:
                cc = None
            if cc is None:
                continue
            cur = bool(cc.get("is_complete"))
            if cur and not prev:
                flips.append((s, cc))
            if prev and not cur:
                v.append(C.viol("C05:completion-flag-cleared", f"is_complete went back to false (snapshot by {s['by']})"))
            prev = cur
        if len(flips) > 1:
            v.append(C.viol("C05:completed-twice", f"is_complete set {len(flips)} times"))
        if flips:
            s, cc = flips[0]
            rj = s["results_json"]
            names = sorted(jobs)
            if rj is None:
                v.append(C.viol("C05:complete-before-results-summary", "is_complete became true but results.json does not "
                                "exist at that instant"))
            elif sorted(rj["results"] + rj["missing"]) != names:
                v.append(C.viol("C05:results-summary-incomplete", f"at completion results.json lists {rj}; jobs {names}"))
            elif rj["missing"]:
                v.append(C.viol("C05:complete-without-all-results", f"fault-free run completed with missing jobs {rj['missing']}"))
            if cc.get("completed_jobs") != cc.get("num_jobs"):
                v.append(C.viol("C05:complete-with-unfinished-jobs", f"is_complete with completed_jobs={cc.get('completed_jobs')} "
                                f"num_jobs={cc.get('num_jobs')}"))
            late = [r for r in w.events("sbatch") if r["i"] > s["i"]]
            if late:
                v.append(C.viol("C05:sbatch-after-completion", f"batches {[r['batch'] for r in late]} submitted after completion"))

        # completion happens once: the summary is written once, nobody tries to complete a complete submission, and a
        # fault-free run does not end with the deliberate deadlock marker
        writes = [r for r in w.events("fs") if r["file"] == "results.json" and r["op"].startswith("open")]
        if len(writes) > 1:
            v.append(C.viol("C05:completed-twice|results-summary-rewritten", f"results.json was written {len(writes)} times, by "
                            f"{[r['by'] for r in writes]}"))
        for e in sim.exceptions():
            if e.get("frame") == "cluster.py:_mark_complete":
                v.append(C.viol("C05:completed-twice|mark-complete-on-complete-submission", f"{e['proc']} tried to mark an already "
                                f"complete submission complete: {e['type']}"))
        if outcome == "complete" and not w.live_threads() and os.path.exists(os.path.join(sim.out, "cluster_config.json.lock")):
            v.append(C.viol("C05:fault-free-run-left-deadlock-marker", f"the submission is complete but cluster_config.json.lock was "
                            f"left behind; exceptions: {sim.exceptions()[-2:]}"))

        # commands after completion must not submit anything
        if outcome == "complete" and not v:
            n_before = len(w.events("sbatch"))
            for k in case["post"]:
                sim.user_cmd(_cmd(sim, k))
                if not w.run():
                    res["inconclusive"] = "step-budget"
                    break
            if len(w.events("sbatch")) != n_before:
                v.append(C.viol("C05:sbatch-after-completion", "a command issued after completion submitted a batch"))
            if not sim.is_complete():
                v.append(C.viol("C05:completion-flag-cleared", "a command issued after completion cleared is_complete"))
            if case["post"]:
                res["classes"].append("post_completion_commands")

        # a fifth of the cases go on with resubmit-jobs (failed/canceled jobs, optionally the successful ones): the rerun is a
        # fault-free run too -- every recovery round makes progress and the submission completes again
        if outcome == "complete" and not v and case.get("rerun") and scn["mode"] == "hpc" and not res.get("inconclusive"):
            w.user_events.clear()
            w.cond_events.clear()
            sim.user_cmd(["resubmit-jobs", sim.out, "--failed", "--missing",
                          "--successful" if case["rerun"]["successful"] else "--no-successful"], name="resubmit")
            w.note("user", cmd="resubmit")
            sim.recovery_rounds = 0
            n_sb = len(w.events("sbatch"))
            out2 = drive_checked("after resubmit-jobs: ")
            if len(w.events("sbatch")) > n_sb:
                res["classes"].append("rerun_after_resubmit")
                if out2 in ("stuck:live-threads", "stuck:no-cluster-config"):
                    v.append(C.viol("C05:rerun-does-not-complete", f"after resubmit-jobs the fault-free rerun ends {out2}; exceptions="
                                    f"{sim.exceptions()[-2:]}"))
                elif out2 == "budget":
                    res["inconclusive"] = "step-budget"
                elif out2 == "complete":
                    rj = H.read_json(os.path.join(sim.out, "results.json")) or {}
                    if rj.get("missing_jobs"):
                        v.append(C.viol("C05:complete-without-all-results|rerun", f"after resubmit-jobs the fault-free rerun completed "
                                        f"with missing jobs {rj.get('missing_jobs')}"))

        if case.get("file_yields"):
            res["classes"].append("file_granularity")
        res["nontrivial"] = sim.recovery_rounds >= 1 or len(rounds) >= 3
        if len(rounds) >= 3:
            res["classes"].append("submitter_rounds>=3")
        if case["recover"] == "show" and sim.recovery_rounds:
            res["classes"].append("recovered_via_show_status")
        if res["nontrivial"] or v:
            res["sample"] = C.sample_of(case, sim, {"recovery_rounds": sim.recovery_rounds, "submitter_rounds": len(rounds),
                                                    "user": case["user"], "recover": case["recover"]})
        if v:
            res["replay_log"] = w.abridged_log(200)
        return res
