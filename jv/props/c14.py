"""C14 -- cancel is final."""

import json
import os

from hypothesis import strategies as st

from jv import gen
from jv import hpcsim as H
from jv.props import common as C

ID = "C14"
LEVEL = "exploration"
BUDGET = {"quick": 4000, "thorough": 48000}
RULE = (
    "case = generated scenario (biased to leave jobs unsubmitted: max_nodes 1-2, small batches, dependencies) x "
    "schedule x the user's cancel-jobs (--complete or --no-complete) fired a generated number of world steps (0-120) "
    "after the submission was created x 0-3 later commands (try-submit-jobs / show-status -n) fired by the schedule "
    "or after quiescence; oracle over the history: no sbatch after the instant is_canceled became visible on disk; "
    "every batch id in hpc_job_ids at that instant was passed to scancel and the simulator holds no queued/running "
    "batch of the submission at that instant; every result row on disk at that instant is in the final results with "
    "the same return code and status; when the submission completes, results + missing_jobs partition the jobs and "
    "every job without a result row is reported missing; non-trivial = at the cancel instant >= 1 job was still "
    "unsubmitted and >= 1 batch was queued or running; distinct by hash of the case"
)
RULE += " Later additions (DESIGN.md 9): " + 'up to 2 unusual-SLURM-state windows before the cancel; a cancel-jobs that exits 0 must leave the submission canceled or complete; in 4/7 of the cases the n-th scancel request fails and that batch goes on running -- the submission must not be declared complete (its jobs reported missing) while a batch is queued or running its jobs.'
ASSUMPTIONS = C.WORLD_ASSUMPTIONS + [
    "scancel removes a PENDING batch and kills a RUNNING one (its node process and job processes die at once)",
]
setup, teardown = C.setup, C.teardown


@st.composite
def cancel_cases(draw):
    scn = draw(gen.scenarios(min_jobs=2, max_jobs=10))
    if draw(st.booleans()):
        scn["max_nodes"] = draw(st.sampled_from([1, 2]))
        for g in scn["groups"]:
            g["batch_size"] = draw(st.sampled_from([1, 2]))
    return {
        "scn": scn,
        "schedule": draw(gen.schedules()),
        "complete": draw(st.sampled_from([True, True, False])),
        "later": draw(st.lists(st.sampled_from(["try", "show"]), max_size=3)),
        # moments (before the cancel) at which the scheduler shows a queued/running batch in a non-terminal state outside
        # JADE's table: the batch is alive and has to be canceled like any other
        "exotic": draw(st.lists(st.fixed_dictionaries({"at": st.integers(5, 150), "steps": st.integers(10, 120),
                                                       "which": st.integers(0, 7)}), max_size=2)),
        "cancel_after": draw(st.integers(0, 120)),  # world steps after the submission was created
        # the n-th scancel request fails (the controller does not answer) and that batch goes on running
        "scancel_fail": draw(st.sampled_from([None, None, None, 1, 1, 2, 3])),
    }


def strategy(tier):
    return cancel_cases()


def _cmd(sim, kind):
    if kind == "try":
        return ["try-submit-jobs", sim.out]
    return ["show-status", "-o", sim.out, "-n"]


def run_case(case):
    scn = case["scn"]
    faults = [{"kind": "scancel_fail", "nth": case["scancel_fail"]}] if case.get("scancel_fail") else []
    with H.Sim(scn, schedule=case["schedule"], snapshots=True, exotic=case.get("exotic", ()), faults=faults) as sim:
        w = sim.w
        state = {"canceled_cmd": False}

        def can_cancel(ww):
            if not os.path.exists(os.path.join(sim.out, "submitter_groups.json")):
                return False
            if "t0" not in state:
                state["t0"] = ww.steps
            return ww.steps - state["t0"] >= case["cancel_after"]

        def do_cancel(ww):
            state["canceled_cmd"] = True
            args = ["cancel-jobs", sim.out] + ([] if case["complete"] else ["--no-complete"])
            sim.user_cmd(args, name="cancel")

        w.user_events.append(("cancel", can_cancel, do_cancel, True))
        for k in case["later"]:
            w.user_events.append((k, lambda ww: state["canceled_cmd"], (lambda kk: lambda ww: sim.user_cmd(_cmd(sim, kk)))(k)))
        sim.submit()
        # run; at quiescence fire remaining user events in order, then the documented recovery
        outcome = "budget"
        guard = 0
        while True:
            guard += 1
            if not w.run():
                break
            if w.user_events and guard < 20:
                continue_possible = [e for e in w.user_events if e[1] is None or e[1](w)]
                if continue_possible:
                    continue
                w.user_events.clear()
            if sim.is_complete():
                outcome = "complete"
                break
            if w.live_threads() or sim.cluster_config() is None:
                outcome = "stuck:live"
                break
            if sim.recovery_rounds >= len(scn["jobs"]) + 3:
                outcome = "stuck:rounds"
                break
            sim.recovery_rounds += 1
            w.note("recovery", n=sim.recovery_rounds)
            sim.user_cmd(["try-submit-jobs", sim.out], name=f"recover{sim.recovery_rounds}")
        res = C.base_result(case, sim, outcome)
        v = res["violations"]
        refused = any(h[0] == "scancel_fail" for h in w.fault_hits)
        if refused:
            res["classes"].append("a_scancel_request_failed")
        # "jobs that never ran are reported missing": a canceled submission is not declared complete (its unfinished jobs
        # reported missing) while one of its batches is alive for certain -- queued, or a job process running right now
        for s in w.snaps:
            try:
                cc = json.loads(s["files"].get("cluster_config.json") or "null")
            except ValueError:
                cc = None
            if cc and cc.get("is_complete") and s.get("alive"):
                v.append(C.viol("C14:complete-while-batch-alive", f"snapshot at log index {s['i']} (by {s['by']}): the submission is "
                                f"marked complete (canceled={cc.get('is_canceled')}) while batches {s['alive']} are queued or running "
                                f"their jobs; results.json: {s.get('results_json')}"))
                break
        # the instant the flag became visible
        flag = None
        for s in w.snaps:
            cc = s["files"].get("cluster_config.json")
            try:
                cc = json.loads(cc) if cc else None
            except ValueError:
                cc = None
            if cc and cc.get("is_canceled"):
                flag = s
                break
        if flag is None:
            # cancel-jobs ends successfully only when the submission was already complete or after marking it canceled
            # (it exits 1 when it cannot get the role): a successful cancel of an incomplete submission that leaves it
            # neither canceled nor complete is a cancel that did not happen -- the quantifier names such moments (some
            # batches finished, jobs still unsubmitted)
            for r in w.events("proc_end"):
                if r.get("name") == "cancel" and r.get("exit") == 0 and not r.get("exc"):
                    snap_after = [s for s in w.snaps if s["i"] <= r["i"]]
                    cc = None
                    if snap_after:
                        try:
                            cc = json.loads(snap_after[-1]["files"].get("cluster_config.json") or "null")
                        except ValueError:
                            cc = None
                    if cc is not None and not cc.get("is_complete") and not cc.get("is_canceled"):
                        later = [x for x in w.events("sbatch") if x["i"] > r["i"]]
                        v.append(C.viol("C14:cancel-jobs-succeeded-without-canceling",
                                        f"cancel-jobs exited 0 while the submission was neither complete nor marked canceled "
                                        f"(completed_jobs={cc.get('completed_jobs')}/{cc.get('num_jobs')}); batches handed to the "
                                        f"HPC afterwards: {[x['batch'] for x in later]}"))
                        res["sample"] = C.sample_of(case, sim)
                        res["replay_log"] = w.abridged_log(150)
            res["classes"].append("cancel_not_effective")  # e.g. submission was already complete
            res["nontrivial"] = False
            return res
        js = json.loads(flag["files"]["job_status.json"])
        late = [r for r in w.events("sbatch") if r["i"] >= flag["i"]]
        for r in late:
            v.append(C.viol(f"C14:sbatch-after-cancel|by={r['by'].split('#')[0].split('/', 1)[-1]}",
                            f"batch {r['batch']} with jobs {r['jobs']} was handed to sbatch by {r['by']} after the "
                            f"submission was marked canceled"))
        scanceled = [r["id"] for r in w.events("scancel") if r["i"] <= flag["i"]]
        for jid in js["hpc_job_ids"]:
            if jid not in scanceled:
                v.append(C.viol("C14:active-batch-not-canceled", f"batch id {jid} was in hpc_job_ids when the submission was "
                                f"marked canceled but scancel was never called for it (scancel ids: {scanceled})"))
        if flag["active"] and not refused:
            v.append(C.viol("C14:batch-still-active-at-cancel", f"scheduler still holds queued/running batches {flag['active']} "
                            f"when the canceled flag became visible"))
        n_unsub = sum(1 for j in js["jobs"] if j["state"] == "not_submitted")
        # how many batches were active when the cancel command was promoted
        first_scancel = min([r["i"] for r in w.events("scancel")] or [flag["i"]])
        res["nontrivial"] = n_unsub >= 1 and len(w.events("scancel")) >= 1 and any(
            r["k"] == "kill" and r["why"] == "scancel" for r in w.log) or (
            n_unsub >= 1 and any(w.slurm[r["id"]]["state"] == "CANCELLED" for r in w.events("scancel") if r["id"] in w.slurm))
        if outcome == "complete":
            summ = sim.results_summary()
            if summ is None:
                v.append(C.viol("C14:no-results-file", "canceled submission complete but results.json missing"))
            else:
                final = {n: (str(r[0]), r[1]) for n, r in summ["results"].items()}
                for name, rc, status in flag["rows"]:
                    if final.get(name) != (rc, status):
                        v.append(C.viol("C14:result-lost-after-cancel", f"result ({name}, rc={rc}, {status}) was on disk when the "
                                        f"submission was canceled; final results have {final.get(name)}"))
                names = sorted(j["name"] for j in scn["jobs"])
                if sorted(list(summ["results"]) + summ["missing"]) != names:
                    v.append(C.viol("C14:jobs-not-accounted", f"results {sorted(summ['results'])} + missing {summ['missing']} != jobs"))
                rows_now = {parts[0] for f, parts in H.W.read_result_rows(sim.out)}
                for n in names:
                    if n not in rows_now and n not in summ["missing"]:
                        v.append(C.viol("C14:never-run-job-not-missing", f"job {n} has no result row but is not in missing_jobs"))
                finished = {r["name"] for r in w.events("finish")}
                for n in summ["results"]:
                    r = summ["results"][n]
                    if r[1] == "finished" and n not in finished:
                        v.append(C.viol("C14:fabricated-result", f"job {n} has a finished result but never finished running"))
        res["classes"].append("cancel_effective")
        if n_unsub:
            res["classes"].append("unsubmitted_at_cancel")
        if not case["complete"]:
            res["classes"].append("no_complete")
        if res["nontrivial"] or v:
            res["sample"] = C.sample_of(case, sim, {"complete": case["complete"], "later": case["later"],
                                                    "unsubmitted_at_cancel": n_unsub, "hpc_job_ids_at_cancel": js["hpc_job_ids"]})
        if v:
            res["replay_log"] = w.abridged_log(200)
        return res
