"""C17 -- configurations round-trip losslessly; invalid ones are rejected up front."""

import json
import os
import shutil

from hypothesis import strategies as st

from jv.props import direct as D

ID = "C17"
LEVEL = "exploration"
BUDGET = {"quick": 4000, "thorough": 60000}
RULE = (
    "case = generated configuration over the public models: 1-8 generic-command jobs (explicit names matching "
    "[\\w.-]+ or unnamed, commands over printable/unicode text, blockers given as names or integer job ids, flags, "
    "estimates, nested JSON ext data, append options), 1-3 submission groups with every optional SubmitterParams / "
    "SlurmConfig field set or unset, lifecycle commands, plus at most one injected invalidity (unknown blocker, "
    "duplicate job name, job naming an unknown group, duplicate group name, differing max_nodes / poll_interval / "
    "hpc_type, estimate above walltime). Oracle 1 (valid): dump to JSON -> create_config_from_file gives the same "
    "job order and per job equal name, command, blocker set, flags, group, estimate, ext; equal groups and "
    "lifecycle commands; serialize() equal modulo set order; dumping the reloaded config is a fixed point; and "
    "JobSubmitter.create accepts it. Oracle 2 (invalid): building or JobSubmitter.create / run_submit_jobs raises "
    "InvalidConfiguration and no external command (sbatch) was attempted. non-trivial = >= 2 jobs, >= 1 "
    "dependency, >= 1 optional field set (valid) or any injected invalidity; distinct by hash of the case"
)
RULE += " Later additions (DESIGN.md 9): " + 'blockers are set through the constructor, by attribute assignment on the live job, through set_blocking_jobs(), or both in sequence; groups are compared field by field (attribute access) with the models built from the generated values; the first file is rewritten with a second version of the configuration and loaded again.'
ASSUMPTIONS = [
    "JSON files only (the statement names JSON); names carry no surrounding blanks (the models strip them)",
    "uniqueness is over effective names (an unnamed job is called by its job id)",
]
setup, teardown = D.setup, D.teardown

NAME = st.from_regex(r"[\w.-]{1,12}", fullmatch=True).filter(lambda s: s == s.strip() and not s.isdigit())
JSONV = st.recursive(st.none() | st.booleans() | st.integers(-5, 5) | st.text(max_size=5) | st.floats(allow_nan=False, allow_infinity=False, width=32),
                     lambda c: st.lists(c, max_size=3) | st.dictionaries(st.text(max_size=4), c, max_size=3), max_leaves=6)
COMMAND = st.text(alphabet=st.characters(blacklist_categories=["Cs"]), min_size=1, max_size=24).filter(lambda s: s.strip())
OPT_STR = lambda *vals: st.one_of(st.none(), st.sampled_from(vals))  # noqa: E731


@st.composite
def configs(draw):
    n = draw(st.integers(1, 8))
    names = draw(st.lists(NAME, min_size=n, max_size=n, unique=True))
    named = [draw(st.booleans()) for _ in range(n)]
    eff = [names[i] if named[i] else str(i + 1) for i in range(n)]
    ng = draw(st.integers(1, 3))
    max_nodes = draw(st.one_of(st.none(), st.integers(1, 9)))
    poll = draw(st.integers(1, 30))
    groups = []
    for g in range(ng):
        groups.append({
            "name": f"grp{g}",
            "job_prefix": draw(st.sampled_from(["job", "x", "my_prefix"])),
            "slurm": {
                "account": draw(st.sampled_from(["acct", "proj1"])),
                "walltime": draw(st.sampled_from(["1:00:00", "0:30:00", "10:00:00", "4:00:00"])),
                "partition": draw(OPT_STR("debug", "short")), "qos": draw(OPT_STR("high")), "mem": draw(OPT_STR("10G")),
                "tmp": draw(OPT_STR("1T")), "gres": draw(OPT_STR("gpu:2")), "reservation": draw(OPT_STR("res1")),
                "nodes": draw(st.one_of(st.none(), st.integers(1, 4))), "ntasks": draw(st.one_of(st.none(), st.integers(1, 4))),
                "ntasks_per_node": draw(st.one_of(st.none(), st.integers(1, 4))),
            },
            "params": {
                "per_node_batch_size": draw(st.integers(1, 600)), "try_add_blocked_jobs": draw(st.booleans()),
                "num_processes": draw(st.one_of(st.none(), st.integers(1, 36))), "generate_reports": draw(st.booleans()),
                "dry_run": draw(st.booleans()), "verbose": draw(st.booleans()), "distributed_submitter": draw(st.booleans()),
                "resource_monitor_interval": draw(st.one_of(st.none(), st.integers(1, 60))),
                "resource_monitor_type": draw(st.sampled_from(["aggregation", "periodic", "none"])),
                "node_setup_script": draw(OPT_STR("setup.sh")), "node_shutdown_script": draw(OPT_STR("down.sh")),
                "resource_monitor_stats": {"cpu": draw(st.booleans()), "disk": draw(st.booleans()), "process": draw(st.booleans())},
            },
        })
    jobs = []
    for i in range(n):
        k = draw(st.integers(0, min(3, n)))
        targets = draw(st.lists(st.integers(0, n - 1), max_size=k, unique=True))
        blocked = []
        for t in targets:
            if not named[t] and draw(st.booleans()):
                blocked.append(t + 1)  # integer job id of an unnamed job
            else:
                blocked.append(eff[t])
        jobs.append({
            "name": names[i] if named[i] else None,
            "command": draw(COMMAND),
            "blocked_by": blocked,
            "cancel": draw(st.booleans()),
            # the estimate is a fraction (per mille) of the job's OWN group's walltime: valid estimates of one group may
            # exceed another group's walltime, and the injected invalid one exceeds only its own
            "est_permille": draw(st.one_of(st.none(), st.integers(1, 1000), st.sampled_from([1000, 999, 500]))),
            "group": draw(st.integers(0, ng - 1)),
            "append_job_name": draw(st.booleans()), "append_output_dir": draw(st.booleans()),
            "ext": draw(st.dictionaries(st.text(max_size=4), JSONV, max_size=2)),
        })
    hooks = {k: draw(OPT_STR("bash x.sh", "hook a b")) for k in ("setup_command", "teardown_command", "node_setup_command", "node_teardown_command")}
    invalid = draw(st.one_of(st.none(), st.none(), st.sampled_from([
        "unknown_blocker", "duplicate_name", "unknown_group", "duplicate_group", "max_nodes", "poll_interval", "hpc_type",
        "estimate_above_walltime"])))
    # the job order may be changed after construction (what `jade config create --shuffle` does through
    # shuffle_jobs(); here a generated permutation applied through the public reconfigure_jobs()), so that the file
    # lists job ids in non-ascending order
    reorder = draw(st.one_of(st.none(), st.none(), st.permutations(list(range(n)))))
    # how the dependencies get onto the job objects: through the constructor, or afterwards on the live object by attribute
    # assignment (as JADE's own integration tests do: job.blocked_by = {1, 2}) or through set_blocking_jobs() (what
    # `jade config assign-blocked-by` calls)
    set_blockers = draw(st.sampled_from(["constructor", "constructor", "attribute", "method", "attribute_then_method"]))
    return {"jobs": jobs, "groups": groups, "max_nodes": max_nodes, "poll": poll, "hooks": hooks, "invalid": invalid,
            "pick": draw(st.integers(0, 7)), "reorder": reorder, "set_blockers": set_blockers}


def strategy(tier):
    return configs()


def build(case):
    """case -> GenericCommandConfiguration. Raises whatever JADE raises."""
    from jade.extensions.generic_command import GenericCommandConfiguration, GenericCommandParameters
    from jade.models import HpcConfig, LocalHpcConfig, SlurmConfig, SubmissionGroup, SubmitterParams
    from jade.models.submitter_params import ResourceMonitorStats

    inv = case["invalid"]
    groups = []
    intended_groups = []
    for gi, g in enumerate(case["groups"]):
        if inv == "hpc_type" and gi == len(case["groups"]) - 1 and gi > 0:
            hpc = HpcConfig(hpc_type="local", hpc=LocalHpcConfig())
        else:
            hpc = HpcConfig(hpc_type="slurm", job_prefix=g["job_prefix"], hpc=SlurmConfig(**g["slurm"]))
        p = dict(g["params"])
        p["resource_monitor_stats"] = ResourceMonitorStats(**p["resource_monitor_stats"])
        mx, poll = case["max_nodes"], case["poll"]
        if inv == "max_nodes" and gi == len(case["groups"]) - 1 and gi > 0:
            mx = (mx or 0) + 1
        if inv == "poll_interval" and gi == len(case["groups"]) - 1 and gi > 0:
            poll = poll + 1
        sp = SubmitterParams(hpc_config=hpc, max_nodes=mx, poll_interval=poll, **p)
        name = g["name"]
        if inv == "duplicate_group" and gi == len(case["groups"]) - 1 and gi > 0:
            name = case["groups"][0]["name"]
        grp = SubmissionGroup(name=name, submitter_params=sp)
        intended_groups.append(model_view(grp))  # read off the model objects, before any serialization
        groups.append(grp.dict())
    cfg = GenericCommandConfiguration(submission_groups=groups, **case["hooks"])
    cfg._jv_intended_groups = intended_groups
    n = len(case["jobs"])
    pick = case["pick"] % n
    for i, j in enumerate(case["jobs"]):
        blocked = list(j["blocked_by"])
        name = j["name"]
        group = f"grp{j['group']}"
        wt = walltime_minutes(case["groups"][j["group"]]["slurm"]["walltime"])
        est = None if j["est_permille"] is None else max(1, wt * j["est_permille"] // 1000)
        if i == pick:
            if inv == "unknown_blocker":
                blocked.append("no_such_job_anywhere")
            elif inv == "unknown_group":
                group = "no_such_group"
            elif inv == "estimate_above_walltime":
                est = wt + 1 + (case["pick"] * 7) % 29  # above its own group's walltime only
            elif inv == "duplicate_name" and n > 1:
                other = case["jobs"][(pick + 1) % n]
                name = other["name"] if other["name"] is not None else str(((pick + 1) % n) + 1)
        how = case.get("set_blockers", "constructor")
        job = GenericCommandParameters(
            name=name, command=j["command"], blocked_by=set(blocked) if how == "constructor" else set(),
            cancel_on_blocking_job_failure=j["cancel"],
            estimated_run_minutes=est, submission_group=group, append_job_name=j["append_job_name"],
            append_output_dir=j["append_output_dir"], ext=j["ext"])
        if how == "attribute":
            job.blocked_by = set(blocked)
        elif how == "method":
            job.set_blocking_jobs({str(b) for b in blocked})
        elif how == "attribute_then_method":
            job.blocked_by = set(blocked[:1])
            job.set_blocking_jobs({str(b) for b in blocked})
        cfg.add_job(job)
    return cfg


def walltime_minutes(text):
    h, m, sec = (int(x) for x in text.split(":"))
    return h * 60 + m + (1 if sec else 0)


def effective_invalid(case):
    inv = case["invalid"]
    if inv in ("duplicate_group", "max_nodes", "poll_interval", "hpc_type") and len(case["groups"]) < 2:
        return None
    if inv == "duplicate_name" and len(case["jobs"]) < 2:
        return None
    return inv


def model_view(o):
    """Field-by-field view of a (pydantic v1) model read through attribute access -- independent of the models' own
    dict()/json() overrides, which are part of what the round-trip goes through."""
    if hasattr(o, "__fields__"):
        return {k: model_view(getattr(o, k)) for k in o.__fields__}
    if isinstance(o, dict):
        return {str(k): model_view(x) for k, x in o.items()}
    if isinstance(o, (list, tuple)):
        return [model_view(x) for x in o]
    if isinstance(o, (set, frozenset)):
        return sorted(model_view(x) for x in o)
    if hasattr(o, "value") and o.__class__.__module__.startswith("jade"):
        return o.value
    return o if isinstance(o, (str, int, float, bool, type(None))) else str(o)


def norm(d):
    d = json.loads(json.dumps(d, default=lambda o: sorted(o) if isinstance(o, (set, frozenset)) else getattr(o, "value", str(o))))
    if isinstance(d, dict):
        for j in d.get("jobs", []):
            j["blocked_by"] = sorted(j["blocked_by"])
    return d


def job_view(j):
    return {"name": j.name, "command": j.command, "blocked_by": sorted(j.get_blocking_jobs()),
            "cancel": j.cancel_on_blocking_job_failure, "group": j.submission_group, "est": j.estimated_run_minutes,
            "ext": json.loads(json.dumps(j.model.ext, default=str)), "append_job_name": j.model.append_job_name, "append_output_dir": j.model.append_output_dir,
            "job_id": j.model.job_id}


def run_case(case):
    from jade.exceptions import InvalidConfiguration
    from jade.jobs.job_configuration_factory import create_config_from_file
    from jade.jobs.job_submitter import JobSubmitter
    import jade.utils.run_command as rc

    res = D.result()
    v = res["violations"]
    inv = effective_invalid(case)
    calls = []
    orig = rc._run_command

    def fake(command, output, cwd, **kw):
        calls.append(command)
        if output is not None:
            output["stdout"] = ""
            output["stderr"] = "no scheduler here"
        if command and command[0] == "git":
            if output is not None:
                output["stdout"] = "commit 0123abc\n" if "log" in command else ""
            return 0
        return 1

    rc._run_command = fake
    tmp = D.fresh_dir()
    try:
        if inv is not None:
            res["classes"].append("invalid:" + inv)
            res["nontrivial"] = True
            raised = None
            try:
                cfg = build(case)
                out = os.path.join(tmp, "out")
                JobSubmitter.run_submit_jobs(cfg, out)
            except InvalidConfiguration as e:
                raised = e
            except Exception as e:  # noqa: BLE001
                v.append(D.viol(f"C17:invalid-config-wrong-error|{inv}", f"injected {inv}: raised {type(e).__name__}: {str(e)[:200]} "
                                f"instead of InvalidConfiguration"))
                raised = e
            if raised is None:
                v.append(D.viol(f"C17:invalid-config-accepted|{inv}", f"configuration with injected invalidity '{inv}' was accepted"))
            handed = [c for c in calls if c and c[0] not in ("git",)]
            if handed:
                v.append(D.viol(f"C17:invalid-config-reached-hpc|{inv}", f"injected {inv}: external commands attempted: {handed[:3]}"))
            res["sample"] = {"invalid": inv, "jobs": len(case["jobs"]), "groups": len(case["groups"])}
            return res
        cfg = build(case)
        order = list(range(len(case["jobs"])))
        if case.get("reorder") and len(case["reorder"]) == len(case["jobs"]):
            order = list(case["reorder"])
            listed = cfg.list_jobs()
            cfg.reconfigure_jobs([listed[i] for i in order])
            res["classes"].append("reordered_after_construction")
        f1 = os.path.join(tmp, "c1.json")
        cfg.dump(f1)
        cfg2 = create_config_from_file(f1)
        a = [job_view(j) for j in cfg.iter_jobs()]
        b = [job_view(j) for j in cfg2.iter_jobs()]
        # the configuration built over the public models must itself say what was put in
        for i, x in zip(order, a):
            j = case["jobs"][i]
            wt = walltime_minutes(case["groups"][j["group"]]["slurm"]["walltime"])
            intended = {"name": j["name"] if j["name"] is not None else str(i + 1), "command": j["command"].strip(),
                        "blocked_by": sorted({str(t) for t in j["blocked_by"]}), "cancel": j["cancel"], "group": f"grp{j['group']}",
                        "est": None if j["est_permille"] is None else max(1, wt * j["est_permille"] // 1000)}
            got = {k: x[k] for k in intended}
            if got != intended:
                diff = {k: (intended[k], got[k]) for k in intended if intended[k] != got[k]}
                v.append(D.viol(f"C17:model-changed-input|{'+'.join(sorted(diff))}", f"job #{i + 1}: (given, stored) {diff}"))
                break
        if [x["name"] for x in a] != [x["name"] for x in b]:
            v.append(D.viol("C17:job-order-changed", f"{[x['name'] for x in a]} -> {[x['name'] for x in b]}"))
        else:
            for x, y in zip(a, b):
                if x != y:
                    diff = {k: (x[k], y[k]) for k in x if x[k] != y[k]}
                    v.append(D.viol(f"C17:job-field-changed|{'+'.join(sorted(diff))}", f"job {x['name']}: {diff}"))
                    break
        ga = norm([g.dict() for g in cfg.submission_groups])
        gb = norm([g.dict() for g in cfg2.submission_groups])
        if ga != gb:
            v.append(D.viol("C17:groups-changed", f"{ga} -> {gb}"))
        # ... and field by field against the group models as they were constructed from the generated values
        want = cfg._jv_intended_groups
        for label, groups_ in (("constructed", cfg.submission_groups), ("reloaded", cfg2.submission_groups)):
            got = [model_view(g) for g in groups_]
            if got != want:
                diff = sorted({f"{k}.{k2}" if isinstance(x.get(k), dict) else k
                               for x, y in zip(want, got) for k in x
                               for k2 in (x[k] if isinstance(x[k], dict) and isinstance(y.get(k), dict) else [None])
                               if (x[k].get(k2) != y[k].get(k2) if k2 is not None else x[k] != y.get(k))})
                v.append(D.viol(f"C17:group-field-changed|{label}|{'+'.join(diff)[:80]}",
                                f"{label} configuration: submission group fields differ from the values given: {diff}; "
                                f"given {want} got {got}"[:1500]))
                break
        for k in ("setup_command", "teardown_command", "node_setup_command", "node_teardown_command"):
            if getattr(cfg, k) != getattr(cfg2, k) or getattr(cfg, k) != case["hooks"][k]:
                v.append(D.viol(f"C17:lifecycle-command-changed|{k}", f"{case['hooks'][k]!r} -> {getattr(cfg, k)!r} -> {getattr(cfg2, k)!r}"))
        if norm(cfg.serialize()) != norm(cfg2.serialize()):
            v.append(D.viol("C17:serialize-differs", "serialize() of original and reloaded configuration differ"))
        f2 = os.path.join(tmp, "c2.json")
        cfg2.dump(f2)
        if norm(json.load(open(f1))) != norm(json.load(open(f2))):
            v.append(D.viol("C17:dump-not-a-fixed-point", "dumping the reloaded configuration changes the file"))
        # the same file rewritten with another configuration (what the `jade config ...` editing commands do) and loaded
        # again at once: the load returns what the file holds now
        alt = json.loads(json.dumps(case))
        alt["reorder"] = None
        for j in alt["jobs"]:
            j["command"] = (j["command"].strip() + " --second-version").strip()
        try:
            cfg_alt = build(alt)
            cfg_alt.dump(f1)
            cfg_alt2 = create_config_from_file(f1)
            a2 = [(x["name"], x["command"]) for x in map(job_view, cfg_alt.iter_jobs())]
            b2 = [(x["name"], x["command"]) for x in map(job_view, cfg_alt2.iter_jobs())]
            if a2 != b2:
                v.append(D.viol("C17:reload-after-rewrite-differs", f"the file was rewritten with {a2[:3]}... and loaded again: got {b2[:3]}..."))
        except InvalidConfiguration:
            pass  # stripping/altering a command cannot invalidate a configuration; nothing to compare if it somehow does
        # every valid configuration is accepted
        try:
            JobSubmitter.create(cfg2, os.path.join(tmp, "out"))
        except Exception as e:  # noqa: BLE001
            v.append(D.viol(f"C17:valid-config-rejected|{type(e).__name__}", f"valid configuration rejected: {type(e).__name__}: {str(e)[:300]}"))
        has_dep = any(j["blocked_by"] for j in case["jobs"])
        opt = any(v2 is not None for g in case["groups"] for v2 in g["slurm"].values()) or any(case["hooks"].values())
        res["nontrivial"] = len(case["jobs"]) >= 2 and has_dep and opt
        res["classes"].append("valid")
        res["classes"].append("blockers_set_by:" + case.get("set_blockers", "constructor"))
        if any(j["name"] is None for j in case["jobs"]):
            res["classes"].append("has_unnamed_job")
        if any(isinstance(b, int) for j in case["jobs"] for b in j["blocked_by"]):
            res["classes"].append("integer_blocker")
        if res["nontrivial"] or v:
            res["sample"] = {"jobs": a[:4], "groups": len(case["groups"]), "hooks": case["hooks"]}
        return res
    finally:
        rc._run_command = orig
        shutil.rmtree(tmp, ignore_errors=True)
