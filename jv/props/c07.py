"""C07 -- every batch respects its group's size/time limit and holds only its group's jobs; dry run."""

import itertools
import json
import os
import re

from hypothesis import strategies as st

from jv import gen
from jv import hpcsim as H
from jv import refmodel as R
from jv.props import common as C

ID = "C07"
LEVEL = "exploration"
BUDGET = {"quick": 2600, "thorough": 32000}
EXHAUSTIVE = {"quick": False, "thorough": False}
RULE = (
    "two parts. (1) enumerated: the first submitter round of EVERY configuration in a finite grid -- quick: n<=2 jobs "
    "fully and n=3 single-group count-based; thorough: all DAGs x listing orders for n<=3 (x estimates {1,2,3}^n for "
    "time-based batching, x 2-group assignments, x batch size / walltime cap / try-add / max-nodes grids) and the "
    "n=4 single-group time-based try-add sub-space with estimates {1,2}^4 -- counters.enumerated gives the count; (2) "
    "generated: full submissions (all rounds) of random scenarios up to 12 jobs, each also run with dry_run on; a third "
    "continue with resubmit-jobs -s <file> carrying a NEW generated parameter set per group, whose batches are checked "
    "against the new set. "
    "Oracle per sbatch: 1 <= |batch| <= per_node_batch_size, or sum of estimated minutes <= walltime x "
    "processes-per-node; all jobs of one group; #SBATCH account/partition/qos/time/job-name and the run-script "
    "options are that group's; a job whose blocker has no result row on disk is only in the batch if try-add-blocked "
    "is on, the blocker is in the same batch and the batch config lists it in blocked_by. Dry run: identical "
    "first-round config_batch_N.json job lists, zero sbatch, zero launches. non-trivial = >= 2 batches or a blocked "
    "job admitted together with its blocker; distinct by hash of the case"
)
RULE += " Later additions (DESIGN.md 9): " + 'a third of the generated cases continue with resubmit-jobs -s <file> carrying a new parameter set per group (checked against the new set); per-group time scale x1..x240 and zero-padded walltimes; HPC parameter values with underscores and hyphens.'
ASSUMPTIONS = C.WORLD_ASSUMPTIONS + [
    "the enumerated part checks the first submitter round only (later rounds are covered by the generated part)",
]
setup, teardown = C.setup, C.teardown

NOHOOKS = {"setup": False, "teardown": False, "node_setup": False, "node_teardown": False}


@st.composite
def full_cases(draw):
    scn = draw(gen.scenarios())
    case = {"scn": scn, "schedule": draw(gen.schedules(100)), "full": True}
    if draw(st.sampled_from([False, False, True])):
        # the documented way to change group parameters: resubmit-jobs -s <groups file> after completion; the rerun's
        # batches have to follow the NEW parameter set of their group
        case["regroup"] = {"groups": [draw(gen.group_params(len(scn["jobs"]))) for _ in scn["groups"]],
                           "successful": draw(st.booleans())}
        # the jobs' estimates stay as configured, so the new walltimes keep the old time scale (every estimate still fits:
        # resubmit-jobs -s does not repeat the up-front runtime check, and _make_batch spins for ever on a job whose
        # estimate exceeds the cap -- DESIGN.md observation O5)
        for g_old, g_new in zip(scn["groups"], case["regroup"]["groups"]):
            g_new["tscale"] = g_old["tscale"]
    return case


def strategy(tier):
    return full_cases()


def _scn(jobs, groups, max_nodes):
    return {"jobs": jobs, "groups": groups, "max_nodes": max_nodes, "poll": 1, "reports": False, "dry_run": False,
            "dsub": True, "mode": "hpc", "hooks": NOHOOKS}


def _jobs(n, edges, order, est, assign):
    jobs = []
    for i in range(n):
        jobs.append({"name": f"j{i}", "blocked_by": [f"j{a}" for a, b in edges if b == i], "cancel": False, "rc": 0,
                     "est": est[i], "group": assign[i]})
    return [jobs[i] for i in order]


def enumerate_cases(tier):
    """The finite grid. Deterministic order; the runner shards it by index."""
    ns = (1, 2, 3)
    for n in ns:
        pairs = [(a, b) for a in range(n) for b in range(a + 1, n)]
        edge_sets = [c for k in range(len(pairs) + 1) for c in itertools.combinations(pairs, k)]
        orders = list(itertools.permutations(range(n)))
        one = [0] * n
        for edges in edge_sets:
            for order in orders:
                # single group, count-based
                for try_add in (False, True):
                    for bs in (1, 2, 3)[: max(1, n)]:
                        for mx in (None, 1, 2):
                            g = {"batch_size": bs, "time_based": False, "try_add": try_add, "walltime": 6, "nproc": None, "cpus": 2}
                            yield {"scn": _scn(_jobs(n, edges, order, [1] * n, one), [g], mx), "schedule": [], "full": False}
                if tier == "quick" and n == 3:
                    continue
                # single group, time-based
                for est in itertools.product((1, 2, 3), repeat=n):
                    for try_add in (False, True):
                        for cap in (3, 4, 6):
                            for mx in (None, 1, 2) if n < 3 or tier == "thorough" else (None,):
                                g = {"batch_size": 500, "time_based": True, "try_add": try_add, "walltime": cap, "nproc": 1, "cpus": 2}
                                yield {"scn": _scn(_jobs(n, edges, order, list(est), one), [g], mx), "schedule": [], "full": False}
                # two groups, count-based
                if n >= 2:
                    for assign in itertools.product((0, 1), repeat=n):
                        if len(set(assign)) < 2:
                            continue
                        for (bs0, t0), (bs1, t1) in itertools.product(itertools.product((1, 2), (False, True)), repeat=2):
                            for mx in (None, 1):
                                gs = [{"batch_size": bs0, "time_based": False, "try_add": t0, "walltime": 6, "nproc": 1, "cpus": 2},
                                      {"batch_size": bs1, "time_based": False, "try_add": t1, "walltime": 7, "nproc": 2, "cpus": 2}]
                                yield {"scn": _scn(_jobs(n, edges, order, [1] * n, list(assign)), gs, mx), "schedule": [], "full": False}
    if tier == "thorough":
        n = 4
        pairs = [(a, b) for a in range(n) for b in range(a + 1, n)]
        edge_sets = [c for k in range(len(pairs) + 1) for c in itertools.combinations(pairs, k)]
        for edges in edge_sets:
            for order in itertools.permutations(range(n)):
                for est in itertools.product((1, 2), repeat=n):
                    for cap in (3, 4):
                        g = {"batch_size": 500, "time_based": True, "try_add": True, "walltime": cap, "nproc": 1, "cpus": 2}
                        yield {"scn": _scn(_jobs(n, edges, order, list(est), [0] * n), [g], None), "schedule": [], "full": False}


def check_sbatch(scn, r, v, sim):
    jobs = R.job_map(scn)
    names = r["jobs"]
    gset = {jobs[n]["group"] for n in names if n in jobs}
    tag = f"batch {r['batch']} {names}"
    if len(gset) != 1:
        v.append(C.viol("C07:mixed-groups", f"{tag}: jobs of groups {sorted(gset)} in one batch"))
        return False
    gi = gset.pop()
    g = scn["groups"][gi]
    ok, why = R.batch_limit_ok(scn, gi, names)
    if not ok:
        v.append(C.viol("C07:batch-limit", f"{tag} (group g{gi}: {g}): {why}"))
    o = r["sbatch_opts"]
    want = {"account": f"acct_{gi}", "partition": f"part_{gi}-x", "time": H.group_walltime(g),
            "job-name": f"pre{gi}_batch_{r['batch']}"}
    if gi % 2:
        want["qos"] = "high_prio"
    got = {k: o.get(k) for k in want}
    if got != want or (gi % 2 == 0 and "qos" in o):
        v.append(C.viol("C07:wrong-group-hpc-parameters", f"{tag} of group g{gi}: #SBATCH {o}; expected {want}"))
    ro = r["run_opts"]
    want_ro = [f"--output={sim.out}", "--distributed-submitter" if scn.get("dsub", True) else "--no-distributed-submitter"]
    if g["nproc"] is not None:
        want_ro.append(f"--num-parallel-processes-per-node={g['nproc']}")
    if g.get("verbose"):
        want_ro.append("--verbose")
    if ro != want_ro:
        v.append(C.viol("C07:wrong-run-options", f"{tag} of group g{gi}: run options {ro}; expected {want_ro}"))
    on_disk = set(r["results_on_disk"])
    admitted = False
    for n in names:
        unfinished = set(jobs[n]["blocked_by"]) - on_disk
        if not unfinished:
            continue
        if not g["try_add"]:
            v.append(C.viol("C07:blocked-job-in-batch-without-try-add", f"{tag}: job {n} has unfinished blockers {sorted(unfinished)} "
                            f"and try_add_blocked_jobs is off"))
        elif not unfinished <= set(names):
            v.append(C.viol("C07:blocked-job-without-its-blockers", f"{tag}: job {n} has unfinished blockers {sorted(unfinished)} "
                            f"not all in the batch"))
        elif not unfinished <= set(r["blocked_by"].get(n, [])):
            v.append(C.viol("C07:batch-config-drops-blocker", f"{tag}: job {n} must wait for {sorted(unfinished)} but the batch "
                            f"config lists blocked_by={r['blocked_by'].get(n)}"))
        else:
            admitted = True
    if r["estimates"] and any(r["estimates"].get(n) != jobs[n]["est"] * g.get("tscale", 1) for n in names):
        v.append(C.viol("C07:batch-config-estimates", f"{tag}: estimates in batch config {r['estimates']}"))
    return admitted


def first_round_batches_from_disk(out):
    res = {}
    for f in sorted(os.listdir(out)):
        m = re.match(r"config_batch_(\d+)\.json$", f)
        if m:
            with H.W.REAL.open(os.path.join(out, f)) as fh:
                res[int(m.group(1))] = [j["name"] for j in json.load(fh)["jobs"]]
    return res


def run_case(case):
    scn = case["scn"]
    res = {"violations": [], "classes": gen.scenario_classes(scn), "nontrivial": False, "sample": None, "inconclusive": None,
           "counters": {}}
    v = res["violations"]
    with H.Sim(scn, schedule=case["schedule"]) as sim:
        login = sim.submit()
        if case["full"]:
            outcome = sim.drive()
            if outcome == "budget":
                res["inconclusive"] = "step-budget"
        else:
            sim.w.run(until=lambda w: login.state == "done")
        sb = sim.w.events("sbatch")
        admitted = False
        for r in sb:
            admitted = check_sbatch(scn, r, v, sim) or admitted
        first_round = {r["batch"]: r["jobs"] for r in sb if r["by_thread"] == "login"}
        rg = case.get("regroup")
        if rg and case["full"] and outcome == "complete" and not v:
            from jade.models import SubmissionGroup

            scn2 = dict(scn, groups=rg["groups"])
            gfile = os.path.join(sim.root, "groups2.json")
            with H.W.REAL.open(gfile, "w") as fh:
                json.dump([json.loads(SubmissionGroup(**g).json()) for g in H.make_groups(scn2)], fh)
            n_before = len(sb)
            sim.user_cmd(["resubmit-jobs", sim.out, "--failed", "--missing",
                          "--successful" if rg["successful"] else "--no-successful", "-s", gfile], name="resubmit")
            sim.recovery_rounds = 0
            outcome = sim.drive()
            if outcome == "budget":
                res["inconclusive"] = "step-budget"
            sb = sim.w.events("sbatch")
            for r in sb[n_before:]:
                admitted = check_sbatch(scn2, r, v, sim) or admitted
            if len(sb) > n_before:
                res["classes"].append("resubmitted_with_new_group_parameters")
        res["nontrivial"] = len(sb) >= 2 or admitted
        if admitted:
            res["classes"].append("blocked_job_admitted_with_blocker")
        if not case["full"]:
            res["classes"].append("enumerated_first_round")
        if res["nontrivial"] or v:
            res["sample"] = {"scenario": scn, "batches": [{"batch": r["batch"], "jobs": r["jobs"], "by": r["by"]} for r in sb][:12]}
        if v:
            res["replay_log"] = sim.w.abridged_log(100)
            return res
    if case["full"]:
        dscn = dict(scn, dry_run=True)
        with H.Sim(dscn, schedule=[]) as sim:
            login = sim.submit()
            sim.w.run()
            if sim.w.events("sbatch"):
                v.append(C.viol("C07:dry-run-submitted", f"dry run handed {len(sim.w.events('sbatch'))} batches to sbatch"))
            if sim.w.events("launch"):
                v.append(C.viol("C07:dry-run-launched", "dry run started jobs"))
            disk = first_round_batches_from_disk(sim.out)
            if login.exit != 0:
                v.append(C.viol("C07:dry-run-failed", f"dry run exited {login.exit} {login.exc}"))
            elif disk != first_round:
                v.append(C.viol("C07:dry-run-batches-differ", f"dry run wrote batches {disk}; the real first round submitted {first_round}"))
            res["classes"].append("dry_run_compared")
            if v:
                res["replay_log"] = sim.w.abridged_log(100)
    return res
