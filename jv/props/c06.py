"""C06 -- node and process concurrency limits are never exceeded."""

import multiprocessing

from hypothesis import strategies as st

from jv import hpcsim as H
from jv.props import common as C

ID = "C06"
LEVEL = "exploration"
BUDGET = {"quick": 4000, "thorough": 48000}
RULE = (
    "case = generated scenario (max_nodes in {None,1,2,3}, processes-per-node in {unset,1,2,3}, node CPU count 1-4) "
    "x schedule x up to 3 moments at which the scheduler shows a queued/running batch in a non-terminal state outside "
    "JADE's table (REQUEUED, SUSPENDED, RESIZING, ...; a suspended batch's processes do not run) x up to 2 failing scheduler commands (n-th squeue once or for a whole retry window, n-th sbatch once) x optional resubmit-jobs issued the moment the submission completes "
    "(the completing batch is still running); after every sbatch the simulator's count of PENDING+RUNNING batches of the submission must be <= "
    "max_nodes; after every job launch the number of live job processes of that node must be <= "
    "processes-per-node (or the node's SLURM_CPUS_ON_NODE when unset; local mode: the machine's CPU count); "
    "non-trivial = max_nodes set and more batches than max_nodes, or a batch with more jobs than workers; distinct "
    "by hash of (scenario, schedule)"
)
RULE += " Later additions (DESIGN.md 9): " + 'persistent sbatch failures, squeue outages of 1-3 retry windows, poll intervals of 1 s / 1 min / 5 min, up to 2 operator rounds bound to the end of batches; round 7: poll intervals are now effective (the harness no longer sets a 1 s monitor interval that lowered them), a busy cluster (batches stay PENDING 0 / 90 / 600 / 3600 virtual seconds), a wide family (8-14 nearly independent jobs, 1-2 per batch, max_nodes 2-5, poll 60/300 s, at least one failing scheduler command), a scheduler rejecting every 2nd/3rd batch for good, squeue honouring -p.'
ASSUMPTIONS = C.WORLD_ASSUMPTIONS
setup, teardown = C.setup, C.teardown


def strategy(tier):
    from jv import gen

    def scn_with_poll(**kw):
        # the poll interval is also how long a submitter trusts its last squeue answer: seconds, a minute, five minutes
        return st.tuples(gen.scenarios(**kw), st.sampled_from([1, 1, 1, 60, 300])).map(lambda t: dict(t[0], poll=t[1]))

    @st.composite
    def wide(draw):
        # many small batches on a busy cluster: 8-14 (nearly) independent jobs, 1-2 per batch, max_nodes 2-5, a long poll
        # interval (= how long a submitter trusts its last squeue answer), so that rounds start with several free slots
        # while earlier batches are still queued
        n = draw(st.integers(8, 14))
        jobs = [{"name": f"j{i}", "blocked_by": ([f"j{draw(st.integers(0, i - 1))}"] if i and draw(st.integers(0, 5)) == 0 else []),
                 "cancel": False, "rc": draw(st.sampled_from([0, 0, 0, 1])), "est": 1, "group": 0} for i in range(n)]
        g = draw(gen.group_params(n))
        g.update(batch_size=draw(st.sampled_from([1, 1, 2])), time_based=False, tscale=1)
        return {"jobs": jobs, "groups": [g], "max_nodes": draw(st.sampled_from([2, 3, 3, 4, 5])),
                "poll": draw(st.sampled_from([60, 300, 300])), "reports": False, "dry_run": False,
                "dsub": draw(st.sampled_from([True, True, False])), "mode": "hpc",
                "hooks": {"setup": False, "teardown": False, "node_setup": False, "node_teardown": False}}

    def cases(scn=None, min_faults=0, **kw):
        return st.fixed_dictionaries({"scn": scn if scn is not None else scn_with_poll(**kw), "schedule": gen.schedules(),
                                      # resubmit-jobs issued the moment the submission is complete and the role is free:
                                      # the batch that completed it is then still running
                                      "resubmit_at_completion": st.sampled_from([False, False, True]),
                                      # operator rounds (try-submit-jobs / show-status) near the end of batches: rounds that
                                      # start with several free slots
                                      "late": C.late_ops(2),
                                      # a busy cluster: batches wait in the queue (PENDING) for this many virtual seconds,
                                      # so a round's earlier batches are still queued while its later sbatch calls are retried
                                      "queue_hold": st.sampled_from([0, 0, 0, 90, 600, 3600]),
                                      "exotic": st.lists(st.fixed_dictionaries({"at": st.integers(10, 400), "steps": st.integers(10, 200),
                                                                                 "which": st.integers(0, 7)}), max_size=3),
                                      # the limits also hold while the scheduler's commands fail: the n-th squeue call fails
                                      # once or for a whole retry window, the n-th sbatch fails once
                                      "faults": st.lists(st.one_of(
                                          st.fixed_dictionaries({"kind": st.sampled_from(["squeue_fail_series", "squeue_fail_series",
                                                                                           "squeue_fail_once"]), "nth": st.integers(0, 12),
                                                                 "len": st.sampled_from([7, 7, 14, 21])}),
                                          st.fixed_dictionaries({"kind": st.sampled_from(["sbatch_fail_once", "sbatch_fail_series"]),
                                                                 "nth": st.integers(0, 8)}),
                                          # the scheduler rejects every 2nd / 3rd distinct batch for good
                                          st.fixed_dictionaries({"kind": st.just("sbatch_fail_every"), "every": st.sampled_from([2, 3]),
                                                                 "phase": st.integers(0, 2)})),
                                          min_size=min_faults, max_size=2)})

    return st.one_of(cases(), cases(), cases(), cases(scn=wide(), min_faults=1), cases(mode="local", max_groups=1))


def run_case(case):
    scn = case["scn"]
    with H.Sim(scn, schedule=case["schedule"], exotic=case.get("exotic", ()),
               faults=[dict(f) for f in case.get("faults", [])], queue_hold=case.get("queue_hold", 0)) as sim:
        import os

        if case.get("resubmit_at_completion") and scn["mode"] == "hpc":
            def pred(ww):
                cc = sim.cluster_config()
                return bool(cc and cc.get("is_complete") and cc.get("submitter") is None)

            def fire(ww):
                sim.user_cmd(["resubmit-jobs", sim.out, "--successful"], name="resubmit")
                sim.recovery_rounds = 0

            sim.w.user_events.append(("resubmit", pred, fire, True))
        C.install_late_ops(sim, case.get("late"))
        sim.submit()
        outcome = sim.drive()
        if case.get("resubmit_at_completion") and any(r["k"] == "user" and r["cmd"] == "resubmit" for r in sim.w.log):
            outcome = sim.drive()  # the rerun
        sim.w.user_events.clear()
        res = C.base_result(case, sim, outcome)
        if any(r["k"] == "user" and r["cmd"] == "resubmit" for r in sim.w.log):
            res["classes"].append("resubmitted_while_last_batch_still_running")
        v = res["violations"]
        for kind in sorted({h[0] for h in sim.w.fault_hits}):
            res["classes"].append("fault_hit:" + kind)
        mx = scn["max_nodes"]
        sb = sim.w.events("sbatch")
        peak_nodes = 0
        for r in sb:
            peak_nodes = max(peak_nodes, r["active_after"])
            if mx is not None and r["active_after"] > mx:
                v.append(C.viol("C06:max-nodes-exceeded", f"after sbatch of batch {r['batch']} by {r['by']} the scheduler "
                                f"holds {r['active_after']} queued/running batches, max_nodes={mx}"))
        crowded = False
        for r in sim.w.events("launch"):
            if scn["mode"] == "local":
                g = scn["groups"][0]
                limit = g["nproc"] if g["nproc"] is not None else multiprocessing.cpu_count()
                njobs = len(scn["jobs"])
            else:
                rec = sim.w.slurm[r["batch"]]
                g = scn["groups"][int(rec["groups"][0][1:])]
                limit = g["nproc"] if g["nproc"] is not None else rec["cpus"]
                njobs = len(rec["jobs"])
            if njobs > limit:
                crowded = True
            if r["live_on_node"] > limit:
                v.append(C.viol("C06:processes-per-node-exceeded", f"node {r['host']} runs {r['live_on_node']} job processes "
                                f"after starting {r['name']}; limit {limit} (nproc={g['nproc']}, cpus={g['cpus']})"))
        res["nontrivial"] = (mx is not None and len(sb) > mx) or crowded
        if mx is not None and len(sb) > mx:
            res["classes"].append("more_batches_than_max_nodes")
        if crowded:
            res["classes"].append("batch_larger_than_workers")
        if sim.w.events("exotic"):
            res["classes"].append("batch_shown_in_unusual_state")
        if case.get("queue_hold"):
            res["classes"].append("busy_cluster_batches_wait_in_queue")
        if res["nontrivial"] or v:
            res["sample"] = C.sample_of(case, sim, {"peak_active_batches": peak_nodes})
        if v:
            res["replay_log"] = sim.w.abridged_log(200)
        return res
