"""C15 -- pipeline stages run strictly in order, each exactly once."""

import json
import os
import shutil

from hypothesis import strategies as st

from jv import gen
from jv import hpcsim as H
from jv import world as W
from jv.props import common as C

ID = "C15"
LEVEL = "exploration"
BUDGET = {"quick": 1800, "thorough": 24000}
RULE = (
    "case = pipeline of 1-4 stages, each a generated small scenario (own submission groups, or none -> the "
    "pipeline's submitter params), given as config files or as auto-config commands (a recorded fake that writes the "
    "stage's config), x schedule x optional lost batch (-> stage return code 1) x optional resubmit-jobs of a "
    "completed stage after the pipeline finished x optional resubmit-jobs of a completed earlier stage while the next "
    "stage is in flight; started with `jade pipeline submit`, driven with the documented "
    "try-submit-jobs recovery on the current stage. Oracle: every sbatch / job launch / auto-config invocation of "
    "stage k+1 happens after stage k's is_complete became true; per stage directory the cluster config version never "
    "goes back (created once) and is_complete never clears unless that stage is resubmitted; at every quiescent "
    "point pipeline.json's stage_num is the stage that is running (or last+1 with is_complete when all are done); "
    "recorded per-stage return codes equal 0/1 by missing jobs; the pipeline is_complete only after the last stage "
    "completed; a completed stage that is resubmitted does not submit any later stage again. non-trivial = >= 2 "
    "stages and >= 2 batches in some stage; distinct by hash of the case"
)
RULE += " Later additions (DESIGN.md 9): " + "stages may have a submission-level teardown command with a generated exit status; one operator command on a generated stage's directory bound to the end of one of its batches; no stage of a fault-free pipeline completes with missing jobs."
ASSUMPTIONS = C.WORLD_ASSUMPTIONS + ["auto-config commands succeed and write the expected file"]
setup, teardown = C.setup, C.teardown


@st.composite
def pipelines(draw):
    n = draw(st.integers(1, 4))
    stages = []
    for k in range(n):
        scn = draw(gen.scenarios(min_jobs=1, max_jobs=5, max_groups=1))
        scn["max_nodes"] = draw(st.sampled_from([None, None, 1, 2]))
        # a stage may have a submission-level teardown command (its exit status is generated per pipeline)
        scn["hooks"] = dict(scn["hooks"], teardown=draw(st.sampled_from([False, False, True])))
        own = draw(st.booleans())
        if not own:
            # the stage runs under the pipeline's own parameters (walltime 0:10:00): estimates stay in minutes
            for g in scn["groups"]:
                g["tscale"] = 1
        stages.append({"scn": scn, "own_groups": own})
    return {
        "stages": stages,
        "style": draw(st.sampled_from(["files", "commands"])),
        "schedule": draw(gen.schedules(200)),
        "lose": draw(st.one_of(st.none(), st.none(), st.integers(0, 5))),
        "resubmit_stage": draw(st.one_of(st.none(), st.none(), st.integers(1, n))),
        # resubmit a completed EARLIER stage while the next stage is in flight (a generated number of steps after the
        # next stage's submission was created)
        "resubmit_early_stage": draw(st.one_of(st.none(), st.none(), st.fixed_dictionaries({
            "stage": st.integers(1, max(1, n - 1)), "after": st.integers(0, 60)}))) if n >= 2 else None,
        "pipe_batch_size": draw(st.integers(1, 4)),
        "teardown_rc": draw(st.sampled_from([0, 0, 3])),
        # an operator's try-submit-jobs / show-status on a stage's directory near the end of one of its batches, held back
        # between two lock holds (common.late_ops)
        "late": draw(C.late_ops()),
        "late_stage": draw(st.integers(1, n)),
    }


def strategy(tier):
    return pipelines()


def stage_out(pout, k):
    return os.path.join(pout, f"output-stage{k}")


def run_case(case):
    stages = case["stages"]
    n = len(stages)
    # rename jobs per stage so that names are unique across the pipeline
    all_jobs = []
    per_stage = []
    for k, stg in enumerate(stages, 1):
        ren = {j["name"]: f"s{k}{j['name']}" for j in stg["scn"]["jobs"]}
        jobs = [dict(j, name=ren[j["name"]], blocked_by=[ren[b] for b in j["blocked_by"]]) for j in stg["scn"]["jobs"]]
        per_stage.append(dict(stg["scn"], jobs=jobs))
        all_jobs += jobs
    pseudo = {"jobs": all_jobs, "groups": [{"cpus": 2, "nproc": None, "batch_size": 1, "time_based": False, "try_add": False, "walltime": 10}],
              "mode": "hpc"}
    faults = [] if case["lose"] is None else [{"kind": "sbatch_fail_series", "nth": case["lose"]}]
    with H.Sim(pseudo, schedule=case["schedule"], faults=faults, snapshots=True) as sim:
        w = sim.w
        w.cpus = 2
        os.chdir(sim.root)
        pout = os.path.join(sim.root, "pipe")
        pfile = os.path.join(sim.root, "pipeline.json")
        from jade.jobs.pipeline_manager import PipelineManager
        from jade.models import HpcConfig, SlurmConfig, SubmitterParams

        files = []
        for k, scn in enumerate(per_stage, 1):
            cfg = H.make_config(scn)
            if not stages[k - 1]["own_groups"]:
                cfg._submission_groups = []
            f = os.path.join(sim.root, f"src-stage{k}.json")
            cfg.dump(f)
            if not stages[k - 1]["own_groups"]:
                # jobs must not name a group that does not exist; the pipeline assigns the default group
                data = json.load(open(f))
                for j in data["jobs"]:
                    j["submission_group"] = "default"
                json.dump(data, open(f, "w"))
            files.append(f)
        sp = SubmitterParams(hpc_config=HpcConfig(hpc_type="slurm", hpc=SlurmConfig(account="pipeacct", walltime="0:10:00")),
                             per_node_batch_size=case["pipe_batch_size"], generate_reports=False, resource_monitor_type="none",
                             poll_interval=1)
        if case["style"] == "files":
            PipelineManager.create_config_from_files(files, pfile, sp)
        else:
            cmds = [f"autocfg {files[k]} config-stage{k + 1}.json" for k in range(n)]
            PipelineManager.create_config_from_commands(cmds, pfile, sp)

        def autocfg(world, vt, argv, env):
            shutil.copyfile(argv[1], argv[2])
            world.note("autocfg", stage=int(os.environ.get("JADE_PIPELINE_STAGE_ID", "0")), dst=argv[2], by=vt.proc.name)
            return W.SyncResult(0)

        w.extra_cmds["autocfg"] = autocfg
        w.hook_rc["teardown"] = case.get("teardown_rc", 0)
        res_classes = []
        if any(stg["scn"]["hooks"].get("teardown") for stg in stages):
            res_classes.append("stage_with_teardown_command" + (":failing" if case.get("teardown_rc") else ""))
        re_ = case.get("resubmit_early_stage")
        k_early = re_["stage"] if re_ else None
        st_early = {}
        if re_:

            def epred(ww):
                nxt = H.read_json(os.path.join(stage_out(pout, k_early + 1), "cluster_config.json"))
                cur = H.read_json(os.path.join(stage_out(pout, k_early), "cluster_config.json"))
                if not (nxt and cur and cur.get("is_complete") and cur.get("submitter") is None and not nxt.get("is_complete")
                        and os.path.exists(os.path.join(stage_out(pout, k_early + 1), "submitter_groups.json"))):
                    return False
                st_early.setdefault("t0", ww.steps)
                return ww.steps - st_early["t0"] >= re_["after"]

            def efire(ww):
                st_early["fired"] = len(ww.log)
                sim.user_cmd(["resubmit-jobs", stage_out(pout, k_early), "--successful"], name="resubmit_early")

            w.user_events.append(("resubmit-early-stage", epred, efire, True))
        if case.get("late"):
            C.install_late_ops(sim, case["late"], out=stage_out(pout, case.get("late_stage", 1)))
        sim.user_cmd(["pipeline", "submit", pfile, "-o", pout], name="login")
        res = {"violations": [], "classes": [f"stages:{n}", "style:" + case["style"]] + res_classes, "nontrivial": False, "sample": None,
               "inconclusive": None, "counters": {}}
        v = res["violations"]
        quiescent_obs = []

        def pipeline_state():
            return H.read_json(os.path.join(pout, "pipeline.json"))

        def observe_quiescent():
            pj = pipeline_state()
            if pj is None:
                return
            running = None
            for k in range(1, n + 1):
                cc = H.read_json(os.path.join(stage_out(pout, k), "cluster_config.json"))
                if cc is not None and not cc["is_complete"]:
                    if re_ and "fired" in st_early and k == k_early:
                        continue  # an earlier stage being rerun by the user's resubmit-jobs is not "the running stage"
                    running = k
            quiescent_obs.append((pj["stage_num"], pj["is_complete"], running,
                                  [s["return_code"] for s in pj["stages"]]))

        rounds = 0
        outcome = "budget"
        while True:
            if not w.run():
                break
            observe_quiescent()
            pj = pipeline_state()
            if pj is None:
                outcome = "stuck:no-pipeline-json"
                break
            if pj["is_complete"]:
                outcome = "complete"
                break
            cur = stage_out(pout, pj["stage_num"])
            for k2 in range(1, min(pj["stage_num"], n + 1)):
                cc2 = H.read_json(os.path.join(stage_out(pout, k2), "cluster_config.json"))
                if cc2 is not None and not cc2["is_complete"] and not w.live_threads():
                    cur = stage_out(pout, k2)  # a resubmitted earlier stage needs the documented recovery first
                    break
            if w.live_threads() or not os.path.exists(os.path.join(cur, "cluster_config.json")):
                outcome = "stuck:" + ("live" if w.live_threads() else "stage-not-created")
                break
            rounds += 1
            if rounds > len(all_jobs) + 2 * n + 3:
                outcome = "stuck:rounds"
                break
            w.note("recovery", n=rounds, stage=pj["stage_num"])
            sim.user_cmd(["try-submit-jobs", cur], name=f"recover{rounds}")
        w.user_events.clear()  # an early-stage resubmission that did not fire while the pipeline ran is dropped
        if outcome == "budget":
            res["inconclusive"] = "step-budget"
        elif outcome.startswith("stuck"):
            v.append(C.viol("C15:pipeline-does-not-complete", f"{outcome}; pipeline.json={pipeline_state()}; exceptions={sim.exceptions()[-3:]}"))
        # stage of an event
        def stage_of_dir(d):
            for k in range(1, n + 1):
                if d and os.path.realpath(d) == os.path.realpath(stage_out(pout, k)):
                    return k
            return None

        complete_at = {}
        version_prev = {}
        resub_starts = [r["i"] for r in w.events("proc_start") if r.get("kind") == "resubmit-jobs"]
        for s in w.snaps:
            k = stage_of_dir(s["dir"])
            try:
                cc = json.loads(s["files"]["cluster_config.json"] or "null")
            except ValueError:
                cc = None
            if k is None or cc is None:
                continue
            if cc["version"] < version_prev.get(k, 0):
                v.append(C.viol("C15:stage-created-twice", f"stage {k}: cluster config version went from {version_prev[k]} to {cc['version']}"))
            version_prev[k] = cc["version"]
            if cc["is_complete"] and k not in complete_at:
                complete_at[k] = s["i"]
            if cc.get("pipeline_stage_num") != k:
                v.append(C.viol("C15:wrong-stage-number-in-cluster", f"stage dir {k} has pipeline_stage_num={cc.get('pipeline_stage_num')}"))
        first_activity = {}
        batches_per_stage = {}
        for r in w.log:
            if r["k"] == "sbatch":
                k = stage_of_dir(r["dir"])
                batches_per_stage[k] = batches_per_stage.get(k, 0) + 1
            elif r["k"] == "launch":
                k = int(r["name"][1]) if r["name"].startswith("s") else None
            elif r["k"] == "autocfg":
                k = r["stage"]
            else:
                continue
            if k is not None and k not in first_activity:
                first_activity[k] = (r["i"], r["k"])
        for k in range(2, n + 1):
            if k in first_activity:
                if (k - 1) not in complete_at or first_activity[k][0] < complete_at[k - 1]:
                    v.append(C.viol("C15:stage-started-before-previous-complete", f"stage {k} had its first {first_activity[k][1]} at log "
                                    f"index {first_activity[k][0]} but stage {k - 1} completed at {complete_at.get(k - 1)}"))
        ac = {}
        for r in w.events("autocfg"):
            ac[r["stage"]] = ac.get(r["stage"], 0) + 1
        for k, c in ac.items():
            if c > 1:
                v.append(C.viol("C15:stage-configured-twice", f"auto-config of stage {k} ran {c} times"))
        for (stage_num, is_c, running, rcs) in quiescent_obs:
            if running is not None and stage_num != running:
                v.append(C.viol("C15:recorded-stage-differs-from-running-stage", f"pipeline.json stage_num={stage_num} while stage "
                                f"{running} is the incomplete one"))
            if is_c and (running is not None or stage_num != n + 1):
                v.append(C.viol("C15:pipeline-complete-too-early", f"pipeline is_complete with stage_num={stage_num}, running={running}"))
        if outcome == "complete":
            pj = pipeline_state()
            if sorted(complete_at) != list(range(1, n + 1)):
                v.append(C.viol("C15:pipeline-complete-without-all-stages", f"pipeline complete; stages completed: {sorted(complete_at)}"))
            for k in range(1, n + 1):
                rj = H.read_json(os.path.join(stage_out(pout, k), "results.json"))
                want = 1 if (rj is None or rj["missing_jobs"]) else 0
                got = pj["stages"][k - 1]["return_code"]
                if re_ and "fired" in st_early and k == k_early:
                    continue  # rerun by the user: results.json no longer shows what the recorded (first) completion saw
                if got != want:
                    v.append(C.viol("C15:stage-return-code", f"stage {k}: recorded return code {got}, expected {want} "
                                    f"(missing_jobs={rj['missing_jobs'] if rj else None})"))
                if rj is not None and rj["missing_jobs"] and case["lose"] is None and not any(x["k"] == "sbatch_fail" for x in w.log):
                    v.append(C.viol("C15:stage-completed-with-missing-jobs", f"stage {k} of a fault-free pipeline was completed with "
                                    f"missing jobs {rj['missing_jobs']} (recorded return code {got})"))
                names = sorted(j["name"] for j in per_stage[k - 1]["jobs"])
                if rj is not None and sorted([r["name"] for r in rj["results"]] + rj["missing_jobs"]) != names:
                    v.append(C.viol("C15:stage-results", f"stage {k}: results do not cover its jobs"))
            # resubmitting a completed stage must not submit later stages again
            if case["resubmit_stage"] is not None and not v and not (re_ and "fired" in st_early):
                k = case["resubmit_stage"]
                mark = len(w.log)
                w.faults[:] = []
                w.note("user", cmd=f"resubmit stage {k}")
                sim.user_cmd(["resubmit-jobs", stage_out(pout, k), "--successful"], name="resubmit")
                guard = 0
                while True:
                    if not w.run():
                        res["inconclusive"] = "step-budget"
                        break
                    cc = H.read_json(os.path.join(stage_out(pout, k), "cluster_config.json"))
                    if cc["is_complete"] or w.live_threads():
                        break
                    guard += 1
                    if guard > len(all_jobs) + 3:
                        break
                    sim.user_cmd(["try-submit-jobs", stage_out(pout, k)], name=f"rerecover{guard}")
                res["classes"].append("resubmitted_a_stage")
                for r in w.log[mark:]:
                    if r["k"] == "sbatch" and stage_of_dir(r["dir"]) != k:
                        v.append(C.viol("C15:later-stage-submitted-again", f"after resubmitting stage {k}, stage "
                                        f"{stage_of_dir(r['dir'])} handed batch {r['batch']} to sbatch again"))
                    if r["k"] == "launch" and int(r["name"][1]) != k:
                        v.append(C.viol("C15:later-stage-submitted-again", f"after resubmitting stage {k}, job {r['name']} of another "
                                        f"stage was started"))
                pj2 = pipeline_state()
                if pj2["stage_num"] != pj["stage_num"] or pj2["is_complete"] != pj["is_complete"]:
                    v.append(C.viol("C15:pipeline-state-changed-by-stage-resubmission", f"{pj['stage_num']},{pj['is_complete']} -> "
                                    f"{pj2['stage_num']},{pj2['is_complete']}"))
        if re_ and "fired" in st_early:
            res["classes"].append("resubmitted_earlier_stage_while_next_in_flight")
        if case["lose"] is not None and any(r["k"] == "sbatch_fail" for r in w.log):
            res["classes"].append("lost_batch")
        res["nontrivial"] = outcome == "complete" and n >= 2 and any(c >= 2 for c in batches_per_stage.values())
        if res["nontrivial"] or v:
            res["sample"] = {"stages": [{"jobs": [(j["name"], j["blocked_by"]) for j in s["jobs"]], "own_groups": stages[i]["own_groups"]}
                                        for i, s in enumerate(per_stage)], "style": case["style"], "log": w.abridged_log(50),
                             "pipeline_json": pipeline_state()}
        if v:
            res["replay_log"] = w.abridged_log(200)
        return res
