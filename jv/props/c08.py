"""C08 -- results are collected exactly once under concurrent writers."""

import csv
import io
import itertools
import os

from hypothesis import strategies as st

from jv import gen
from jv import hpcsim as H
from jv import world as W
from jv.props import common as C

ID = "C08"
LEVEL = "exploration"
BUDGET = {"quick": 4000, "thorough": 60000}
RULE = (
    "case = 1-4 runner processes (one per batch) each appending 1-5 generated results (finished or canceled rows, "
    "arbitrary return codes / times / HPC ids) through ResultsAggregator.append, 1-3 collector processes each calling "
    "ResultsAggregator.load(out).process_results() 1-3 times, optionally a submitter-level append_result on the "
    "consolidated file, all interleaved by a generated schedule at lock-operation AND file-operation granularity "
    "(open / commit / remove are scheduling points), then one final collection; plus (thorough) every schedule with "
    "<= 2 pre-emptions of a tiny configuration (2 runners x 1 row, 1 collector x 2 calls) enumerated exhaustively. "
    "Oracle: multiset of appended rows == rows of the final consolidated file (all six fields) == disjoint union of "
    "all process_results() return values; whenever the consolidated file's lock is free the file parses and every "
    "row has six well-typed fields; no process raises. non-trivial = a collection happened strictly between two "
    "appends to the same node file (header re-creation path) with >= 2 actors; distinct by hash of the case. One case in "
    "five is a whole generated submission instead (real run-jobs and try-submit-jobs processes, operator rounds near the "
    "end of batches): at completion every job that ran has exactly one consolidated row, no row is left in a node file, "
    "and every consolidated row's job is recorded as done (it was reported to a round). A third of the direct cases "
    "continue as resubmit-jobs does: clear_results_for_resubmission rewrites the consolidated file without a generated "
    "subset of the rows, then a second generation of runners / collectors / submitter-level rows works on the rewritten "
    "file; it must hold exactly the kept rows (unchanged) plus the new ones, each new row reported to exactly one round. Batch numbers start at a generated base (0, 1, 7, 9, 98)"
)
ASSUMPTIONS = C.WORLD_ASSUMPTIONS + [
    "file_yields on; a row / file content reaches the disk atomically at close (rows are < 1 page, one buffered write)",
]
setup, teardown = C.setup, C.teardown

ROW = st.fixed_dictionaries({
    "rc": st.sampled_from([0, 0, 1, 2, 255]),
    "status": st.sampled_from(["finished", "finished", "canceled"]),
    "exec": st.floats(min_value=0, max_value=1e5, allow_nan=False, width=32),
    "ctime": st.floats(min_value=1.6e9, max_value=1.8e9, allow_nan=False),
    "hpc": st.one_of(st.none(), st.integers(1, 10 ** 8).map(str)),
})


def strategy(tier):
    direct = st.fixed_dictionaries({
        "runners": st.lists(st.lists(ROW, min_size=1, max_size=5), min_size=1, max_size=4),
        "collectors": st.lists(st.integers(1, 3), min_size=1, max_size=3),
        "submitter_rows": st.lists(ROW, max_size=2),
        "schedule": gen.schedules(240),
        # batch numbers start here (batch ids grow with every round and resubmission: two- and three-digit ids are normal)
        "batch_base": st.sampled_from([0, 1, 1, 7, 9, 98]),
        # a third of the cases continue the way resubmit-jobs does: the consolidated file is rewritten without the rows of
        # the jobs to rerun (clear_results_for_resubmission), then a second generation of runners and collectors works on it
        "epoch2": st.one_of(st.none(), st.none(), st.fixed_dictionaries({
            "remove": st.lists(st.integers(0, 40), max_size=6),
            "runners": st.lists(st.lists(ROW, min_size=1, max_size=3), min_size=1, max_size=3),
            "collectors": st.lists(st.integers(1, 2), min_size=1, max_size=2),
            "submitter_rows": st.lists(ROW, max_size=1),
        })),
    })
    # whole submissions: real runners (run-jobs) and real submitter rounds (try-submit-jobs), interleaved at lock- and
    # file-operation granularity, with operator rounds near the end of batches
    flow = st.fixed_dictionaries({
        "kind": st.just("flow"),
        "scn": gen.scenarios(min_jobs=2, max_jobs=8, max_groups=2),
        "schedule": gen.schedules(200),
        "late": C.late_ops(),
        "file_yields": st.booleans(),
    })
    return st.integers(0, 9).flatmap(lambda k: flow if k == 0 else direct)


def run_flow(case, res):
    """Every row a runner wrote is in the consolidated file exactly once when the fault-free submission is complete, no
    row is left in a node file, and every consolidated row was reported to a round: its job is recorded as done."""
    v = res["violations"]
    scn = case["scn"]
    with H.Sim(scn, schedule=case["schedule"], file_yields=case.get("file_yields", False),
               max_steps=30000 if case.get("file_yields") else 8000) as sim:
        C.install_late_ops(sim, case.get("late"))
        sim.submit()
        outcome = sim.drive()
        res["classes"].append("kind:flow")
        if outcome != "complete":
            res["inconclusive"] = "flow-" + outcome.split(":")[0]
            return
        rows = list(W.read_result_rows(sim.out))
        consolidated = [parts[0] for f, parts in rows if f == "processed_results.csv" and parts]
        stranded = sorted({(f, parts[0]) for f, parts in rows if f != "processed_results.csv" and parts})
        dup = sorted({n for n in consolidated if consolidated.count(n) > 1})
        if dup:
            v.append(C.viol("C08:flow-row-consolidated-twice", f"jobs {dup} have more than one row in processed_results.csv"))
        if stranded:
            v.append(C.viol("C08:flow-row-never-collected", f"the submission is complete but rows are still in node files: {stranded}"))
        js = sim.job_status() or {}
        not_done = sorted(j["name"] for j in js.get("jobs", []) if j["name"] in set(consolidated) and j.get("state") != "done")
        if not_done:
            v.append(C.viol("C08:flow-row-reported-to-no-round", f"jobs {not_done} have a row in processed_results.csv but were never "
                            f"reported as completed to a submitter round (recorded state: "
                            f"{[(j['name'], j.get('state')) for j in js.get('jobs', []) if j['name'] in not_done]})"))
        launched = set(C.launches(sim))
        lost = sorted(launched - set(consolidated))
        if lost:
            v.append(C.viol("C08:flow-row-lost", f"jobs {lost} ran but have no row in processed_results.csv"))
        res["nontrivial"] = len(sim.w.events("sbatch")) >= 2 and len(consolidated) >= 2
        if res["nontrivial"] or v:
            res["sample"] = C.sample_of(case, sim, {"kind": "flow", "consolidated": len(consolidated)})
        if v:
            res["replay_log"] = sim.w.abridged_log(150)


def enumerate_cases(tier):
    if tier != "thorough":
        return
    row = {"rc": 0, "status": "finished", "exec": 1.0, "ctime": 1.7e9, "hpc": "7"}
    base = {"runners": [[row], [dict(row, rc=1)]], "collectors": [2], "submitter_rows": []}
    # sequential baseline has ~L scheduling points; pre-empt at <= 2 positions, to each of the other 2 actors
    L = 90
    yield dict(base, schedule=[])
    for a in range(L):
        for ca in (1, 2):
            yield dict(base, schedule=[0] * a + [ca])
    for a in range(L):
        for b in range(a + 1, L):
            for ca, cb in itertools.product((1, 2), repeat=2):
                yield dict(base, schedule=[0] * a + [ca] + [0] * (b - a - 1) + [cb])


def make_result(name, r):
    from jade.result import Result

    return Result(name, r["rc"], r["status"], float(r["exec"]), completion_time=float(r["ctime"]), hpc_job_id=r["hpc"])


def key(res):
    return (res.name, res.return_code, res.status, float(res.exec_time_s), float(res.completion_time), res.hpc_job_id)


def _norm(k):
    # a rewritten consolidated file stores a missing HPC id as an empty field
    return k[:5] + (None if k[5] in (None, "", "None") else k[5],)


def run_epoch2(case, e2, w, out, appended, events, runner, collector, submitter, returned, v, res):
    """resubmit-jobs' use of the aggregator: rewrite the consolidated file without the rows of the jobs to rerun, then a
    second generation of runners / collectors / submitter-level rows; the file must hold the kept rows and the new ones."""
    from jade.jobs.results_aggregator import ResultsAggregator

    res["classes"].append("epoch2_after_rewrite")
    names = sorted({k[0] for k in appended})
    remove = {names[i % len(names)] for i in e2["remove"]} if names else set()
    kept = [k for k in appended if k[0] not in remove]
    if remove and kept:
        res["classes"].append("epoch2_some_rows_kept_some_removed")
    box = {}

    def clear():
        ResultsAggregator.load(out).clear_results_for_resubmission(set(remove))
        box["after_clear"] = [key(x) for x in ResultsAggregator.list_results(out)]
        raise SystemExit(0)

    vt = w.spawn("resubmit", "login1", w.base_env, clear, "submitter")
    w.run()
    if vt.exc or "after_clear" not in box:
        v.append(C.viol("C08:rewrite-failed", f"{vt.exc}"))
        return
    if sorted(map(_norm, box["after_clear"]), key=repr) != sorted(map(_norm, kept), key=repr):
        v.append(C.viol("C08:rewrite-rows-differ", f"after removing {sorted(remove)} the consolidated file holds "
                        f"{sorted(k[0] for k in box['after_clear'])}, expected {sorted(k[0] for k in kept)} unchanged"))
        return
    n0 = len(appended)
    r0 = len(returned)
    nb = len(case["runners"])
    for b, rows in enumerate(e2["runners"]):
        w.spawn(f"e2run{b}", f"n{nb + b}", w.base_env, runner(nb + b, rows, tag="e2"), "runner")
    for c, n in enumerate(e2["collectors"]):
        w.spawn(f"e2col{c}", f"c{c}", w.base_env, collector(n), "collector")
    if e2["submitter_rows"]:
        w.spawn("e2sub", "login1", w.base_env, submitter(e2["submitter_rows"], tag="e2"), "submitter")
    ok = w.run()
    if not ok or w.live_threads():
        res["inconclusive"] = "step-budget" if not ok else "live-threads"
        return
    excs = [(t.name, t.exc) for t in w.threads if t.exc]
    if excs:
        v.append(C.viol(f"C08:process-raised|{excs[0][1].get('type')}", f"epoch 2: {excs}"))

    def final():
        box["rows"] = [key(x) for x in ResultsAggregator.load(out).process_results()]
        box["all"] = [key(x) for x in ResultsAggregator.list_results(out)]
        raise SystemExit(0)

    vt = w.spawn("e2final", "login1", w.base_env, final, "collector")
    w.run()
    if vt.exc or "all" not in box:
        v.append(C.viol("C08:final-collection-failed", f"epoch 2: {vt.exc}"))
        return
    new = appended[n0:]
    want = sorted(map(_norm, kept + new), key=repr)
    got = sorted(map(_norm, box["all"]), key=repr)
    if got != want:
        lost = [x for x in want if x not in got]
        extra = [x for x in got if got.count(x) > want.count(x)]
        v.append(C.viol("C08:consolidated-rows-differ-after-rewrite" + ("|lost" if lost else "|duplicated-or-changed"),
                        f"kept {len(kept)} rows + {len(new)} new; consolidated file has {len(got)}; lost={lost[:4]} extra/changed={extra[:4]}"))
    rep = returned[r0:] + box["rows"]
    if sorted(rep, key=repr) != sorted(new, key=repr):
        lost = [x for x in new if x not in rep]
        dup = sorted({x for x in rep if rep.count(x) > 1}, key=repr)
        v.append(C.viol("C08:reported-results-differ-after-rewrite" + ("|never-reported" if lost else "|reported-twice"),
                        f"rows never reported to a round: {lost[:4]}; reported more than once: {dup[:4]}"))


def run_case(case):
    from jade.jobs.results_aggregator import ResultsAggregator

    res = {"violations": [], "classes": [], "nontrivial": False, "sample": None, "inconclusive": None, "counters": {}}
    v = res["violations"]
    if case.get("kind") == "flow":
        run_flow(case, res)
        return res
    pseudo = {"jobs": [], "groups": [{"cpus": 1}], "mode": "hpc"}
    with H.Sim(pseudo, schedule=case["schedule"], file_yields=True, max_steps=20000) as sim:
        w = sim.w
        out = sim.out
        os.makedirs(os.path.join(out, "results"))
        ResultsAggregator.create(out)  # harness thread: real lock, no contention yet
        appended = []
        returned = []
        parse_errors = []
        events = []  # ("append", batch) / ("collect",) in completion order

        def check_consolidated(rec):
            # the consolidated file's lock was just released: the file must parse
            if rec["k"] == "lockrel":
                try:
                    with W.REAL.open(os.path.join(out, "processed_results.csv")) as f:
                        text = f.read()
                    rows = list(csv.reader(io.StringIO(text)))
                    if not rows or rows[0] != ["name", "return_code", "status", "exec_time_s", "completion_time", "hpc_job_id"]:
                        parse_errors.append(f"bad header {rows[:1]}")
                    for r in rows[1:]:
                        if len(r) != 6:
                            parse_errors.append(f"row with {len(r)} fields: {r}")
                            continue
                        int(r[1]), float(r[3]), float(r[4])
                        if r[2] not in ("finished", "canceled"):
                            parse_errors.append(f"bad status {r}")
                except (ValueError, OSError) as e:
                    parse_errors.append(repr(e))

        orig_note_lock = w._note_lock

        def note_lock(what, path, vt):
            orig_note_lock(what, path, vt)
            if what == "release" and os.path.basename(path) == "processed_results.csv.lock":
                check_consolidated({"k": "lockrel"})

        w._note_lock = note_lock

        def runner(b, rows, tag=""):
            def fn():
                for i, r in enumerate(rows):
                    result = make_result(f"{tag}b{b}r{i}", r)
                    ResultsAggregator.append(out, result, batch_id=b + case.get("batch_base", 0))
                    appended.append(key(result))
                    events.append(("append", b))
                raise SystemExit(0)
            return fn

        def collector(n):
            def fn():
                for _ in range(n):
                    got = ResultsAggregator.load(out).process_results()
                    returned.extend(key(x) for x in got)
                    events.append(("collect",))
                raise SystemExit(0)
            return fn

        def submitter(rows, tag=""):
            def fn():
                agg = ResultsAggregator.load(out)
                for i, r in enumerate(rows):
                    result = make_result(f"{tag}s{i}", dict(r, status="canceled", rc=r["rc"] or 1, hpc=None))
                    agg.append_result(result)
                    appended.append(key(result))
                    returned.append(key(result))  # a submitter-level result is known to its round by construction
                raise SystemExit(0)
            return fn

        for b, rows in enumerate(case["runners"]):
            w.spawn(f"run{b}", f"n{b}", w.base_env, runner(b, rows), "runner")
        for c, n in enumerate(case["collectors"]):
            w.spawn(f"col{c}", f"c{c}", w.base_env, collector(n), "collector")
        if case["submitter_rows"]:
            w.spawn("sub", "login1", w.base_env, submitter(case["submitter_rows"]), "submitter")
        ok = w.run()
        if not ok or w.live_threads():
            res["inconclusive"] = "step-budget" if not ok else "live-threads"
            return res
        excs = [(t.name, t.exc) for t in w.threads if t.exc]
        if excs:
            v.append(C.viol(f"C08:process-raised|{excs[0][1].get('type')}", f"{excs}"))
        # final collection after everyone ended
        box = {}

        def final():
            box["rows"] = [key(x) for x in ResultsAggregator.load(out).process_results()]
            box["all"] = [key(x) for x in ResultsAggregator.list_results(out)]
            raise SystemExit(0)

        vt = w.spawn("final", "login1", w.base_env, final, "collector")
        w.run()
        if vt.exc or "all" not in box:
            v.append(C.viol("C08:final-collection-failed", f"{vt.exc}"))
            res["replay_log"] = [str(e) for e in events]
            return res
        returned_all = returned + box["rows"]
        want = sorted(appended, key=repr)
        if sorted(box["all"], key=repr) != want:
            lost = [x for x in want if x not in box["all"]]
            extra = [x for x in box["all"] if box["all"].count(x) > want.count(x)]
            v.append(C.viol("C08:consolidated-rows-differ" + ("|lost" if lost else "|duplicated-or-changed"),
                            f"appended {len(want)} rows; consolidated file has {len(box['all'])}; lost={lost[:4]} extra/changed={extra[:4]}"))
        if sorted(returned_all, key=repr) != want:
            lost = [x for x in want if x not in returned_all]
            dup = sorted({x for x in returned_all if returned_all.count(x) > 1}, key=repr)
            v.append(C.viol("C08:reported-results-differ" + ("|never-reported" if lost else "|reported-twice"),
                            f"rows never reported to a round: {lost[:4]}; reported more than once: {dup[:4]}"))
        if parse_errors:
            v.append(C.viol("C08:consolidated-file-unparsable", f"{parse_errors[:3]}"))
        if any(os.path.exists(os.path.join(out, "results", f)) for f in os.listdir(os.path.join(out, "results")) if f.endswith(".csv")):
            v.append(C.viol("C08:node-file-left-after-final-collection", f"{os.listdir(os.path.join(out, 'results'))}"))
        e2 = case.get("epoch2")
        if e2 and not v:
            run_epoch2(case, e2, w, out, appended, events, runner, collector, submitter, returned, v, res)
        # non-trivial: collect strictly between two appends of the same batch
        nt = False
        for b in range(len(case["runners"])):
            idx = [i for i, e in enumerate(events) if e == ("append", b)]
            for x, y in zip(idx, idx[1:]):
                if any(events[k] == ("collect",) for k in range(x + 1, y)):
                    nt = True
        res["nontrivial"] = nt and len(case["runners"]) + len(case["collectors"]) >= 2
        if nt:
            res["classes"].append("collect_between_appends_same_file")
        res["classes"].append(f"runners:{len(case['runners'])}")
        res["classes"].append(f"collectors:{len(case['collectors'])}")
        res["counters"]["scheduling_points"] = w.steps
        if res["nontrivial"] or v:
            res["sample"] = {"runners": [len(r) for r in case["runners"]], "collectors": case["collectors"],
                             "submitter_rows": len(case["submitter_rows"]), "order": [str(e) for e in events][:30], "steps": w.steps}
        if v:
            res["replay_log"] = [str(e) for e in events]
        return res
