"""C02 -- no job starts before every job blocking it has a recorded outcome."""

from hypothesis import strategies as st

from jv import gen
from jv import hpcsim as H
from jv.props import common as C

ID = "C02"
LEVEL = "exploration"
BUDGET = {"quick": 4000, "thorough": 48000}
RULE = (
    "case = generated scenario (HPC mode with 1-3 groups, or local mode) x schedule (a quarter of the HPC cases "
    "continue with resubmit-jobs with a generated selection after completion); at every job launch the set "
    "of result rows on disk (node result files + consolidated file, read raw at that instant) is recorded and "
    "must contain every job of the launched job's blocked_by list; non-trivial = some dependency edge whose two "
    "jobs both ran in different batches, or in the same batch (local: same queue) with the dependent launched "
    "after its blocker finished; distinct by hash of (scenario, schedule)"
)
RULE += " Later additions (DESIGN.md 9): " + 'a quarter of the HPC cases continue with resubmit-jobs (generated selection) and the same launch oracle applies to the rerun.'
ASSUMPTIONS = C.WORLD_ASSUMPTIONS + [
    "'recorded outcome' = a row for the blocker in results/results_batch_*.csv or processed_results.csv",
]
setup, teardown = C.setup, C.teardown


RESUBMIT = st.fixed_dictionaries({"failed": st.booleans(), "successful": st.booleans()})


def strategy(tier):
    hpc = C.world_cases()
    # a quarter of the HPC cases go on with resubmit-jobs after completion (generated selection): the rerun jobs' result
    # rows were removed, so a rerun blocker has to get its new outcome recorded before its dependents start again
    hpc_resub = st.fixed_dictionaries({"scn": gen.scenarios(), "schedule": gen.schedules(), "resubmit": RESUBMIT,
                                       "schedule2": gen.schedules(80)})
    return st.one_of(hpc, hpc, hpc_resub, C.world_cases(mode="local", max_groups=1))


def run_case(case):
    scn = case["scn"]
    with H.Sim(scn, schedule=case["schedule"], observe_results=True) as sim:
        sim.submit()
        outcome = sim.drive()
        if outcome == "complete" and case.get("resubmit") and scn["mode"] == "hpc":
            f = case["resubmit"]
            sim.w.note("user", cmd="resubmit")
            sim.user_cmd(["resubmit-jobs", sim.out, "--failed" if f["failed"] else "--no-failed", "--missing",
                          "--successful" if f["successful"] else "--no-successful"], name="resubmit")
            sim.recovery_rounds = 0
            s2 = case.get("schedule2", [])
            sim.w.schedule, sim.w.k = list(s2.get("picks", []) if isinstance(s2, dict) else s2), 0
            outcome = sim.drive()
        res = C.base_result(case, sim, outcome)
        if any(r["k"] == "user" and r.get("cmd") == "resubmit" for r in sim.w.log):
            res["classes"].append("resubmitted")
        if scn["mode"] == "local":
            res["classes"].append("local_mode")
        v = res["violations"]
        jobs = {j["name"]: j for j in scn["jobs"]}
        finished = set()
        batch_of = {}
        nontrivial = False
        for r in sim.w.log:
            if r["k"] == "finish":
                finished.add(r["name"])
            elif r["k"] == "user" and r.get("cmd") == "resubmit":
                finished.clear()
                batch_of.clear()
            elif r["k"] == "launch":
                name = r["name"]
                batch_of[name] = r["batch"]
                on_disk = set(r["results_on_disk"])
                for b in jobs[name]["blocked_by"]:
                    if b not in on_disk:
                        where = "same-batch" if batch_of.get(b) == r["batch"] and b in batch_of else "other-batch"
                        v.append(C.viol(f"C02:started-before-blocker-outcome|{where}",
                                        f"job {name} started (batch {r['batch']}, by {r['by']}) while blocker {b} "
                                        f"has no result row on disk; rows present: {sorted(on_disk)}; blocker "
                                        f"{'finished running' if b in finished else 'has not finished running'}"))
                    elif b in batch_of:
                        nontrivial = True
        res["nontrivial"] = nontrivial
        if nontrivial or v:
            res["sample"] = C.sample_of(case, sim)
        if v:
            res["replay_log"] = sim.w.abridged_log(200)
        return res
