"""C16 -- setup and teardown commands run exactly once, at the right time."""

import json
import os

from hypothesis import strategies as st

from jv import gen
from jv import hpcsim as H
from jv.props import common as C

ID = "C16"
LEVEL = "exploration"
BUDGET = {"quick": 4000, "thorough": 48000}
RULE = (
    "case = generated scenario with each of the four lifecycle commands set or unset (all 16 combinations), HPC or "
    "local mode, x schedule x optional lost batch (completion with missing jobs) x optional resubmit-jobs after "
    "completion; hook commands are recorded at the subprocess "
    "boundary with host, environment and position in the history; oracle: setup exactly once, on the submitting "
    "host, before the first sbatch/launch, with JADE_RUNTIME_OUTPUT, and not again on resubmission; teardown exactly "
    "once per completion, after results.json was written and before is_complete becomes true, whatever the exit "
    "codes; per batch node-setup once before the batch's first launch and node-teardown once after its last job "
    "ended, both with JADE_RUNTIME_OUTPUT and JADE_SUBMISSION_GROUP; unset commands never run; with hooks configured "
    "every finished job's result is collected and every node process exits 0; non-trivial = >= 2 hooks set and "
    "(>= 2 batches or local mode with >= 2 jobs); distinct by hash of the case"
)
ASSUMPTIONS = C.WORLD_ASSUMPTIONS + ["the setup and node-setup commands succeed (a failing one aborts by design); the two "
                                      "teardown commands may exit non-zero"]
setup, teardown = C.setup, C.teardown


def strategy(tier):
    base = st.one_of(gen.scenarios(hooks=True), gen.scenarios(hooks=True), gen.scenarios(hooks=True),
                     gen.scenarios(hooks=True, mode="local", max_groups=1))
    return st.fixed_dictionaries({
        "scn": base,
        "schedule": gen.schedules(),
        "resubmit": st.sampled_from([False, False, True]),
        # a lost batch (sbatch failing for its whole retry series): the submission then completes with missing jobs --
        # still a completion, so the teardown command must run
        "lose": st.one_of(st.none(), st.none(), st.none(), st.integers(0, 3)),
        # the two teardown commands may fail (JADE logs the failure and carries on); the setup commands succeed
        "hook_rc": st.fixed_dictionaries({"teardown": st.sampled_from([0, 0, 5]), "node_teardown": st.sampled_from([0, 0, 3])}),
    })


def run_case(case):
    scn = case["scn"]
    hooks = scn["hooks"]
    local = scn["mode"] == "local"
    faults = [] if case.get("lose") is None or local else [{"kind": "sbatch_fail_series", "nth": case["lose"]}]
    with H.Sim(scn, schedule=case["schedule"], snapshots=True, faults=faults) as sim:
        w = sim.w
        w.hook_rc.update(case.get("hook_rc") or {})
        if any((case.get("hook_rc") or {}).values()):
            pass
        at_hook = {}

        def observer(rec):
            if rec["k"] == "hook" and rec["what"] == "teardown":
                rj = H.read_json(os.path.join(sim.out, "results.json"))
                cc = H.read_json(os.path.join(sim.out, "cluster_config.json"))
                at_hook[rec["i"]] = {
                    "results_json": None if rj is None else sorted([r["name"] for r in rj["results"]] + list(rj["missing_jobs"])),
                    "is_complete": None if cc is None else cc.get("is_complete"),
                }

        w.observers.append(observer)
        sim.submit()
        outcome = sim.drive()
        res = C.base_result(case, sim, outcome)
        res["classes"].append("hooks:" + "".join(k[0] if hooks[k] else "-" for k in ("setup", "teardown", "node_setup", "node_teardown")))
        if local:
            res["classes"].append("local_mode")
        epochs = 1
        lost = any(r["k"] == "sbatch_fail" for r in w.log)
        if lost:
            res["classes"].append("completed_with_missing_jobs")
        if any(r["what"] in ("teardown", "node_teardown") and (case.get("hook_rc") or {}).get(r["what"]) for r in w.events("hook")):
            res["classes"].append("a_teardown_command_failed")
        w.faults[:] = []
        if outcome == "complete" and case["resubmit"] and not local:
            w.note("user", cmd="resubmit")
            sim.user_cmd(["resubmit-jobs", sim.out, "--successful"], name="resubmit")
            sim.recovery_rounds = 0
            outcome = sim.drive()
            epochs = 2
            res["classes"].append("resubmitted")
            if outcome != "complete":
                res["inconclusive"] = "after-resubmit-" + outcome.split(":")[0]
        v = res["violations"]
        hk = w.events("hook")
        by = {}
        for r in hk:
            by.setdefault(r["what"], []).append(r)
        for name in ("setup", "teardown", "node_setup", "node_teardown"):
            if not hooks[name] and by.get(name):
                v.append(C.viol(f"C16:unset-hook-ran|{name}", f"{name} command is not configured but ran {len(by[name])} times"))
        first_work = min([r["i"] for r in w.events("sbatch", "launch")] or [10 ** 9])
        if hooks["setup"]:
            s = by.get("setup", [])
            if len(s) != 1:
                v.append(C.viol("C16:setup-count", f"setup command ran {len(s)} times (epochs={epochs})"))
            for r in s[:1]:
                if r["host"] != "login1":
                    v.append(C.viol("C16:setup-host", f"setup ran on {r['host']}"))
                if r["i"] > first_work:
                    v.append(C.viol("C16:setup-after-first-batch", "setup ran after the first sbatch/launch"))
                if r["env"].get("JADE_RUNTIME_OUTPUT") != sim.out:
                    v.append(C.viol("C16:setup-env", f"setup env {r['env']}"))
        # completion instants
        flips = []
        prev = False
        for s in w.snaps:
            try:
                cc = json.loads(s["files"]["cluster_config.json"] or "null")
            except ValueError:
                cc = None
            if cc is None:
                continue
            if cc["is_complete"] and not prev:
                flips.append(s["i"])
            prev = cc["is_complete"]
        if hooks["teardown"] and res["inconclusive"] is None:
            t = by.get("teardown", [])
            if len(t) != epochs:
                v.append(C.viol("C16:teardown-count", f"teardown command ran {len(t)} times for {epochs} completion(s)"))
            names = sorted(j["name"] for j in scn["jobs"])
            for k, r in enumerate(t):
                info = at_hook.get(r["i"], {})
                if info.get("results_json") != names:
                    v.append(C.viol("C16:teardown-before-all-outcomes", f"teardown #{k + 1} ran when results.json listed "
                                    f"{info.get('results_json')} (jobs {names})"))
                if not local:
                    if info.get("is_complete"):
                        v.append(C.viol("C16:teardown-after-completion-flag", f"teardown #{k + 1} ran with is_complete already true"))
                    if k < len(flips) and r["i"] > flips[k]:
                        v.append(C.viol("C16:teardown-after-completion-flag", f"teardown #{k + 1} ran after completion #{k + 1} was flagged"))
                if r["env"].get("JADE_RUNTIME_OUTPUT") != sim.out:
                    v.append(C.viol("C16:teardown-env", f"teardown env {r['env']}"))
        # node hooks
        if local:
            units = [{"id": None, "group": H.group_name(scn["jobs"][0]["group"]), "thread": "login", "ended": outcome == "complete"}]
        else:
            units = []
            for r in w.events("start_batch"):
                rec = w.slurm[r["id"]]
                units.append({"id": r["id"], "group": rec["groups"][0], "thread": f"node{r['id']}",
                              "ended": rec["vt"] is not None and rec["vt"].state == "done" and not rec["vt"].dead})
        for u in units:
            ls = [r for r in w.events("launch") if r["batch"] == u["id"]]
            fs = [r for r in w.events("finish") if r["batch"] == u["id"]]
            ns = [r for r in by.get("node_setup", []) if r["batch"] == u["id"]]
            nt = [r for r in by.get("node_teardown", []) if r["batch"] == u["id"]]
            tag = f"batch {u['id']}" if u["id"] else "local run"
            if hooks["node_setup"]:
                if len(ns) != 1:
                    v.append(C.viol("C16:node-setup-count", f"{tag}: node setup ran {len(ns)} times"))
                for r in ns[:1]:
                    if ls and r["i"] > ls[0]["i"]:
                        v.append(C.viol("C16:node-setup-after-first-job", f"{tag}: node setup ran after job {ls[0]['name']} started"))
                    if r["env"].get("JADE_RUNTIME_OUTPUT") != sim.out or r["env"].get("JADE_SUBMISSION_GROUP") != u["group"]:
                        v.append(C.viol("C16:node-setup-env", f"{tag}: env {r['env']}, expected output {sim.out} group {u['group']}"))
            if hooks["node_teardown"] and u["ended"] is not None:
                vt = None if local else w.slurm[u["id"]]["vt"]
                if len(nt) != 1:
                    exc = (vt.exc if vt is not None else None)
                    v.append(C.viol(f"C16:node-teardown-count|{(exc or {}).get('frame')}", f"{tag}: node teardown ran {len(nt)} times; node process "
                                    f"exit={getattr(vt, 'exit', None)} exception={exc}"))
                for r in nt[:1]:
                    if fs and r["i"] < fs[-1]["i"] or len(fs) != len(ls):
                        v.append(C.viol("C16:node-teardown-before-jobs-ended", f"{tag}: node teardown ran before all jobs of the batch ended"))
                    if r["env"].get("JADE_RUNTIME_OUTPUT") != sim.out or r["env"].get("JADE_SUBMISSION_GROUP") != u["group"]:
                        v.append(C.viol("C16:node-teardown-env", f"{tag}: env {r['env']}, expected output {sim.out} group {u['group']}"))
            if not local and any(hooks.values()):
                vt = w.slurm[u["id"]]["vt"]
                if vt is not None and vt.state == "done" and not vt.dead and vt.exit != 0:
                    v.append(C.viol(f"C16:node-process-failed|{(vt.exc or {}).get('frame')}", f"{tag}: node process exited {vt.exit} "
                                    f"exception={vt.exc}"))
        # results of finished jobs are recorded
        if any(hooks.values()) and outcome == "complete":
            summ = sim.results_summary()
            finished = {r["name"]: r["rc"] for r in w.events("finish")}
            for n, rc in finished.items():
                got = summ["results"].get(n) if summ else None
                if got is None or got[0] != rc or got[1] != "finished":
                    v.append(C.viol("C16:finished-job-result-not-recorded", f"job {n} finished with {rc}; recorded result {got}; missing="
                                    f"{summ['missing'] if summ else None}"))
        nset = sum(1 for x in hooks.values() if x)
        res["nontrivial"] = nset >= 2 and (len(w.events("sbatch")) >= 2 or (local and len(scn["jobs"]) >= 2))
        if res["nontrivial"] or v:
            res["sample"] = C.sample_of(case, sim, {"hooks": hooks})
        if v:
            res["replay_log"] = w.abridged_log(200)
        return res
