"""C04 -- failure cancellation is exact: flagged dependents never run, others always run."""

from jv import hpcsim as H
from jv import refmodel as R
from jv.props import common as C

ID = "C04"
LEVEL = "exploration"
BUDGET = {"quick": 4000, "thorough": 48000}
RULE = (
    "case = generated scenario x schedule run to completion; oracle: job canceled by the reference model "
    "(flag set and some blocker failed/canceled, evaluated in topological order) <=> result status 'canceled' "
    "with non-zero return code and zero launches; every other job launched exactly once; non-trivial = >= 1 job "
    "canceled by the reference AND >= 1 flagged job with blockers that must not be canceled; placement of each "
    "cancellation (same batch / other batch as the failing blocker) is counted; distinct by hash of (scenario, schedule). "
    "A quarter of the cases continue with resubmit-jobs (failed/canceled, optionally successful): exit codes belong to the "
    "jobs, so in the rerun no reference-canceled job may be started, no job is started twice, and the final classes equal the reference again"
)
ASSUMPTIONS = C.WORLD_ASSUMPTIONS
setup, teardown = C.setup, C.teardown


def strategy(tier):
    from hypothesis import strategies as st
    from jv import gen

    biased = st.fixed_dictionaries({"scn": gen.cancel_scenarios(), "schedule": gen.schedules()})
    # a quarter of the cases go on with `resubmit-jobs` (failed/canceled jobs, optionally the successful ones too): the exit
    # codes belong to the jobs, so a failing blocker fails again in the rerun and the same jobs must be canceled again --
    # now on the basis of what the submission recorded about them
    rerun = st.fixed_dictionaries({"scn": gen.cancel_scenarios(), "schedule": gen.schedules(),
                                   "resubmit": st.fixed_dictionaries({"successful": st.booleans()}),
                                   "schedule2": gen.schedules(80)})
    return st.one_of(biased, biased, rerun, C.world_cases())


def check_rerun(case, sim, ref, res):
    """resubmit-jobs after completion; the reference classification is unchanged (exit codes belong to the jobs)."""
    v = res["violations"]
    scn = case["scn"]
    mark = len(sim.w.log)
    sim.w.note("user", cmd="resubmit")
    sim.user_cmd(["resubmit-jobs", sim.out, "--failed", "--missing",
                  "--successful" if case["resubmit"]["successful"] else "--no-successful"], name="resubmit")
    sim.recovery_rounds = 0
    s2 = case.get("schedule2", [])
    sim.w.schedule, sim.w.k = list(s2.get("picks", []) if isinstance(s2, dict) else s2), 0
    outcome = sim.drive()
    res["classes"].append("resubmitted")
    launched = {}
    for r in sim.w.log[mark:]:
        if r["k"] == "launch":
            launched[r["name"]] = launched.get(r["name"], 0) + 1
    if not launched and not any(c in ("failed", "canceled") for c in ref.values()) and not case["resubmit"]["successful"]:
        return  # nothing was selected
    for name, cls in sorted(ref.items()):
        if cls == "canceled" and launched.get(name, 0) > 0:
            v.append(C.viol("C04:canceled-job-was-started|rerun", f"after resubmit-jobs: job {name} must be canceled again (a "
                            f"blocker failed or was canceled in the rerun) but its command was started {launched[name]} time(s)"))
        if launched.get(name, 0) > 1:
            v.append(C.viol("C04:runnable-job-launch-count|rerun", f"after resubmit-jobs: job {name} was launched {launched[name]} times"))
    if outcome != "complete":
        res["inconclusive"] = "rerun-" + outcome.split(":")[0]
        return
    summary = sim.results_summary()
    results = summary["results"] if summary else {}
    for name, cls in sorted(ref.items()):
        got = results.get(name)
        if got is None or H.classify_result(got[0], got[1]) != cls:
            v.append(C.viol("C04:wrong-class|rerun", f"after resubmit-jobs: job {name}: reference {cls}, final result {got}"))
    if any(launched.get(n) for n, c in ref.items() if c == "failed") and any(c == "canceled" for c in ref.values()):
        res["classes"].append("rerun_failing_blocker_with_flagged_dependent")


def run_case(case):
    scn = case["scn"]
    with H.Sim(scn, schedule=case["schedule"]) as sim:
        sim.submit()
        outcome = sim.drive()
        res = C.base_result(case, sim, outcome)
        v = res["violations"]
        ref = R.classify_simple(scn)
        nl = C.launches(sim)
        # a canceled job must never have been launched -- checked on every history, complete or not
        rows = {}
        for fname, parts in H.W.read_result_rows(sim.out):
            rows.setdefault(parts[0], []).append(parts)
        for name, cls in sorted(ref.items()):
            if cls == "canceled" and nl.get(name, 0) > 0:
                v.append(C.viol("C04:canceled-job-was-started", f"job {name} must be canceled (a blocker failed or was "
                                f"canceled) but its command was started {nl[name]} time(s)"))
        for name, rr in sorted(rows.items()):
            for parts in rr:
                if parts[2] == "canceled" and ref[name] != "canceled":
                    v.append(C.viol("C04:spurious-cancel", f"job {name} has a 'canceled' result but no blocker failed "
                                    f"or was canceled (reference: {ref[name]})"))
                if parts[2] == "canceled" and parts[1] == "0":
                    v.append(C.viol("C04:canceled-with-zero-return-code", f"job {name}: canceled result has return code 0"))
        placed = C.placements(sim)
        if outcome == "complete":
            summary = sim.results_summary()
            results = summary["results"]
            for name, cls in sorted(ref.items()):
                got = results.get(name)
                if cls == "canceled":
                    if got is None or H.classify_result(got[0], got[1]) != "canceled":
                        v.append(C.viol("C04:not-canceled", f"job {name} must be canceled; final result: {got}"))
                else:
                    if nl.get(name, 0) != 1:
                        v.append(C.viol("C04:runnable-job-launch-count", f"job {name} (reference {cls}, flag="
                                        f"{[j for j in scn['jobs'] if j['name'] == name][0]['cancel']}) was launched "
                                        f"{nl.get(name, 0)} times; final result: {got}"))
                    elif got is None or H.classify_result(got[0], got[1]) != cls:
                        v.append(C.viol("C04:wrong-class", f"job {name}: reference {cls}, final result {got}"))
            # placement classes of cancellations
            jobs = {j["name"]: j for j in scn["jobs"]}
            for name, cls in ref.items():
                if cls == "canceled":
                    bad = [b for b in jobs[name]["blocked_by"] if ref[b] in ("failed", "canceled")]
                    same = any(placed.get(b) and placed.get(name) and placed[b][0] == placed[name][0] for b in bad)
                    if placed.get(name):
                        res["classes"].append("cancel:same-batch" if same else "cancel:in-batch-blocker-elsewhere")
                    else:
                        res["classes"].append("cancel:by-submitter")
        if outcome == "complete" and case.get("resubmit") and not v:
            check_rerun(case, sim, ref, res)
        n_cancel = sum(1 for c in ref.values() if c == "canceled")
        n_kept = sum(1 for j in scn["jobs"] if j["cancel"] and j["blocked_by"] and ref[j["name"]] != "canceled")
        res["classes"] = sorted(set(res["classes"]))
        res["nontrivial"] = outcome == "complete" and n_cancel >= 1 and n_kept >= 1
        if res["nontrivial"] or v:
            res["sample"] = C.sample_of(case, sim, {"reference": ref})
        if v:
            res["replay_log"] = sim.w.abridged_log(200)
        return res
