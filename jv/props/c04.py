"""C04 -- failure cancellation is exact: flagged dependents never run, others always run."""

from jv import hpcsim as H
from jv import refmodel as R
from jv.props import common as C

ID = "C04"
LEVEL = "exploration"
BUDGET = {"quick": 4000, "thorough": 48000}
RULE = (
    "case = generated scenario x schedule run to completion; oracle: job canceled by the reference model "
    "(flag set and some blocker failed/canceled, evaluated in topological order) <=> result status 'canceled' "
    "with non-zero return code and zero launches; every other job launched exactly once; non-trivial = >= 1 job "
    "canceled by the reference AND >= 1 flagged job with blockers that must not be canceled; placement of each "
    "cancellation (same batch / other batch as the failing blocker) is counted; distinct by hash of (scenario, schedule)"
)
ASSUMPTIONS = C.WORLD_ASSUMPTIONS
setup, teardown = C.setup, C.teardown


def strategy(tier):
    from hypothesis import strategies as st
    from jv import gen

    biased = st.fixed_dictionaries({"scn": gen.cancel_scenarios(), "schedule": gen.schedules()})
    return st.one_of(biased, biased, biased, C.world_cases())


def run_case(case):
    scn = case["scn"]
    with H.Sim(scn, schedule=case["schedule"]) as sim:
        sim.submit()
        outcome = sim.drive()
        res = C.base_result(case, sim, outcome)
        v = res["violations"]
        ref = R.classify_simple(scn)
        nl = C.launches(sim)
        # a canceled job must never have been launched -- checked on every history, complete or not
        rows = {}
        for fname, parts in H.W.read_result_rows(sim.out):
            rows.setdefault(parts[0], []).append(parts)
        for name, cls in sorted(ref.items()):
            if cls == "canceled" and nl.get(name, 0) > 0:
                v.append(C.viol("C04:canceled-job-was-started", f"job {name} must be canceled (a blocker failed or was "
                                f"canceled) but its command was started {nl[name]} time(s)"))
        for name, rr in sorted(rows.items()):
            for parts in rr:
                if parts[2] == "canceled" and ref[name] != "canceled":
                    v.append(C.viol("C04:spurious-cancel", f"job {name} has a 'canceled' result but no blocker failed "
                                    f"or was canceled (reference: {ref[name]})"))
                if parts[2] == "canceled" and parts[1] == "0":
                    v.append(C.viol("C04:canceled-with-zero-return-code", f"job {name}: canceled result has return code 0"))
        placed = C.placements(sim)
        if outcome == "complete":
            summary = sim.results_summary()
            results = summary["results"]
            for name, cls in sorted(ref.items()):
                got = results.get(name)
                if cls == "canceled":
                    if got is None or H.classify_result(got[0], got[1]) != "canceled":
                        v.append(C.viol("C04:not-canceled", f"job {name} must be canceled; final result: {got}"))
                else:
                    if nl.get(name, 0) != 1:
                        v.append(C.viol("C04:runnable-job-launch-count", f"job {name} (reference {cls}, flag="
                                        f"{[j for j in scn['jobs'] if j['name'] == name][0]['cancel']}) was launched "
                                        f"{nl.get(name, 0)} times; final result: {got}"))
                    elif got is None or H.classify_result(got[0], got[1]) != cls:
                        v.append(C.viol("C04:wrong-class", f"job {name}: reference {cls}, final result {got}"))
            # placement classes of cancellations
            jobs = {j["name"]: j for j in scn["jobs"]}
            for name, cls in ref.items():
                if cls == "canceled":
                    bad = [b for b in jobs[name]["blocked_by"] if ref[b] in ("failed", "canceled")]
                    same = any(placed.get(b) and placed.get(name) and placed[b][0] == placed[name][0] for b in bad)
                    if placed.get(name):
                        res["classes"].append("cancel:same-batch" if same else "cancel:in-batch-blocker-elsewhere")
                    else:
                        res["classes"].append("cancel:by-submitter")
        n_cancel = sum(1 for c in ref.values() if c == "canceled")
        n_kept = sum(1 for j in scn["jobs"] if j["cancel"] and j["blocked_by"] and ref[j["name"]] != "canceled")
        res["classes"] = sorted(set(res["classes"]))
        res["nontrivial"] = outcome == "complete" and n_cancel >= 1 and n_kept >= 1
        if res["nontrivial"] or v:
            res["sample"] = C.sample_of(case, sim, {"reference": ref})
        if v:
            res["replay_log"] = sim.w.abridged_log(200)
        return res
