"""Run one generated submission in the simulation world and return everything the oracles need."""

import json
import os
import shutil
import tempfile

from jv import world as W

W.install()

import logging  # noqa: E402

from jade.extensions.generic_command import GenericCommandConfiguration, GenericCommandParameters  # noqa: E402
from jade.models import (  # noqa: E402
    HpcConfig,
    LocalHpcConfig,
    SlurmConfig,
    SubmissionGroup,
    SubmitterParams,
)
import jade.cli.jade  # noqa: E402,F401  (pre-import: no imports inside virtual processes)
import jade.cli.jade_internal  # noqa: E402,F401

_SCRATCH = None


def scratch_root():
    """Per-process scratch directory (under /dev/shm when present), removed at exit by the runner."""
    global _SCRATCH
    if _SCRATCH is None:
        base = os.environ.get("JV_SCRATCH")
        if not base:
            base = "/dev/shm" if os.path.isdir("/dev/shm") and os.access("/dev/shm", os.W_OK) else None
        _SCRATCH = tempfile.mkdtemp(prefix="jv_", dir=base)
        os.environ["JADE_REGISTRY"] = os.path.join(_SCRATCH, "registry.json")
        tempfile.tempdir = _SCRATCH
        logging.disable(logging.CRITICAL)
    return _SCRATCH


def cleanup_scratch():
    global _SCRATCH
    if _SCRATCH is not None:
        shutil.rmtree(_SCRATCH, ignore_errors=True)
        _SCRATCH = None


def reset_logging_handlers():
    """Drop every handler a finished case configured (their files live in the case's deleted scratch directory)."""
    for lg in list(logging.Logger.manager.loggerDict.values()) + [logging.getLogger()]:
        if isinstance(lg, logging.Logger):
            for h in list(lg.handlers):
                lg.removeHandler(h)
                try:
                    h.close()
                except Exception:  # noqa: BLE001
                    pass


def group_name(i):
    return f"g{i}"


def walltime_str(minutes, pad=False):
    return f"{minutes // 60:02d}:{minutes % 60:02d}:00" if pad else f"{minutes // 60}:{minutes % 60:02d}:00"


def group_walltime(g):
    """The group's walltime as written into its SLURM parameters: `walltime` minutes x `tscale` (estimates of the group's
    jobs are scaled alike, so limits in 'units' are unchanged), hours optionally zero-padded."""
    return walltime_str(g["walltime"] * g.get("tscale", 1), g.get("pad", False))


def make_groups(scn):
    """The scenario's submission groups as SubmissionGroup dicts (public models only)."""
    groups = []
    for gi, g in enumerate(scn["groups"]):
        if scn.get("mode") == "local":
            hpc = HpcConfig(hpc_type="local", hpc=LocalHpcConfig())
        else:
            hpc = HpcConfig(
                hpc_type="slurm",
                job_prefix=f"pre{gi}",
                hpc=SlurmConfig(account=f"acct_{gi}", walltime=group_walltime(g), partition=f"part_{gi}-x",
                                qos=("high_prio" if gi % 2 else None), nodes=scn.get("nodes", 1)),
            )
        sp = SubmitterParams(
            hpc_config=hpc,
            per_node_batch_size=g["batch_size"],
            time_based_batching=g["time_based"],
            num_processes=g["nproc"],
            try_add_blocked_jobs=g["try_add"],
            max_nodes=scn.get("max_nodes"),
            poll_interval=scn.get("poll", 1),
            generate_reports=scn.get("reports", False),
            dry_run=scn.get("dry_run", False),
            distributed_submitter=scn.get("dsub", True),
            resource_monitor_type=scn.get("monitor", "none"),
            # submit-jobs lowers poll_interval to resource_monitor_interval when that is smaller: leave the monitor interval
            # unset when a longer poll interval is generated (the interval is also how long a squeue answer is trusted)
            resource_monitor_interval=1 if scn.get("poll", 1) == 1 else None,
            verbose=g.get("verbose", False),
        )
        groups.append(SubmissionGroup(name=group_name(gi), submitter_params=sp).dict())
    return groups


def make_config(scn):
    """Scenario dict -> GenericCommandConfiguration (public models only)."""
    groups = make_groups(scn)
    hooks = scn.get("hooks") or {}
    cfg = GenericCommandConfiguration(
        submission_groups=groups,
        setup_command="hook setup" if hooks.get("setup") else None,
        teardown_command="hook teardown" if hooks.get("teardown") else None,
        node_setup_command="hook node_setup" if hooks.get("node_setup") else None,
        node_teardown_command="hook node_teardown" if hooks.get("node_teardown") else None,
    )
    for j in scn["jobs"]:
        cfg.add_job(
            GenericCommandParameters(
                name=j["name"],
                command=f"jobcmd {j['name']}",
                blocked_by=set(j["blocked_by"]),
                cancel_on_blocking_job_failure=j["cancel"],
                estimated_run_minutes=j["est"] * scn["groups"][j["group"]].get("tscale", 1),
                submission_group=group_name(j["group"]),
            )
        )
    return cfg


def read_json(path):
    try:
        with W.REAL.open(path) as f:
            return json.load(f)
    except (FileNotFoundError, ValueError):
        return None


class Sim:
    """One world + one output directory. Used as a context manager."""

    def __init__(self, scn, schedule=(), lock_mode="classic", file_yields=False, faults=None, snapshots=False,
                 observe_results=False, max_steps=8000, observe_rows=False, exotic=(), shared_node_hosts=0, event_logging=False,
                 queue_hold=0):
        self.scn = scn
        self.base = tempfile.mkdtemp(prefix="case_", dir=scratch_root())
        self.root = os.path.join(self.base, "w")
        os.makedirs(self.root)
        self.out = os.path.join(self.root, "out")
        self.config_file = os.path.join(self.root, "config.json")
        groups = scn["groups"]

        def cpus(rec):
            gs = rec.get("groups") or []
            if gs and gs[0] and gs[0].startswith("g"):
                try:
                    return groups[int(gs[0][1:])]["cpus"]
                except (ValueError, IndexError):
                    pass
            return groups[0]["cpus"]

        self.w = W.World(
            self.root,
            exit_codes={j["name"]: j["rc"] for j in scn["jobs"]},
            cpus=cpus,
            lock_mode=lock_mode,
            file_yields=file_yields,
            faults=faults,
            snapshots=snapshots,
            observe_results=observe_results,
            max_steps=max_steps,
        )
        self.w.base_env = {
            "PATH": "/usr/bin:/bin",
            "HOME": self.root,
            "USER": "vuser",
            "JADE_REGISTRY": os.environ["JADE_REGISTRY"],
        }
        self.w.observe_rows = observe_rows
        self.w.shared_node_hosts = shared_node_hosts
        self.w.event_logging = event_logging
        self.w.queue_hold = queue_hold
        self.w.exotic_plan = sorted((dict(x) for x in exotic), key=lambda x: x["at"])
        if isinstance(schedule, dict):
            self.w.schedule = list(schedule.get("picks", []))
            self.w.pauses = [dict(r) for r in schedule.get("pauses", [])]
            self.w.prio = list(schedule["prio"]) if schedule.get("prio") else None
        else:
            self.w.schedule = list(schedule)
        self.recovery_rounds = 0
        self.stuck = None
        self.user_n = 0

    def __enter__(self):
        self.w.__enter__()
        if self.w.event_logging:
            reset_logging_handlers()
            logging.disable(logging.NOTSET)
            self._saved_evlog = W._evlog_get()
            W._evlog_set(([], 0, True, False))
        return self

    def __exit__(self, *a):
        try:
            self.w.__exit__(*a)
        finally:
            if self.w.event_logging:
                logging.disable(logging.CRITICAL)
                for h in list(logging.getLogger(W._EVENT_LOGGER).handlers):
                    try:
                        h.close()
                    except Exception:  # noqa: BLE001
                        pass
                W._evlog_set(self._saved_evlog)
                reset_logging_handlers()
            shutil.rmtree(self.base, ignore_errors=True)
        return False

    # ------------------------------------------------------------------ driving
    def submit(self):
        cfg = make_config(self.scn)
        cfg.dump(self.config_file)
        args = ["submit-jobs", self.config_file, "-o", self.out]
        if self.scn.get("mode") == "local":
            args.append("--local")
        return self.w.spawn_cli("login", "login1", "jade", args)

    def user_cmd(self, args, host="login1", name=None, capture=False):
        self.user_n += 1
        return self.w.spawn_cli(name or f"user{self.user_n}", host, "jade", list(args), capture=capture)

    def cluster_config(self, out=None):
        return read_json(os.path.join(out or self.out, "cluster_config.json"))

    def job_status(self, out=None):
        return read_json(os.path.join(out or self.out, "job_status.json"))

    def is_complete(self, out=None):
        cc = self.cluster_config(out)
        return bool(cc and cc.get("is_complete"))

    def deadlocked(self, out=None):
        return os.path.exists(os.path.join(out or self.out, "cluster_config.json.lock")) or os.path.exists(
            os.path.join(out or self.out, "submitter.lock")
        )

    def drive(self, max_rounds=None, on_round=None):
        """Run to quiescence, then apply the documented recovery until complete. Returns 'complete',
        'stuck:<why>' or 'budget'."""
        w = self.w
        n = len(self.scn["jobs"])
        if max_rounds is None:
            max_rounds = n + 3
        while True:
            if not w.run():
                return "budget"
            if self.scn.get("mode") == "local" or self.scn.get("dry_run"):
                return "complete"
            if self.is_complete():
                return "complete"
            if w.live_threads():
                self.stuck = "live-threads-not-runnable:" + ",".join(t.name for t in w.live_threads())
                return "stuck:" + self.stuck
            if self.cluster_config() is None:
                self.stuck = "no-cluster-config"
                return "stuck:" + self.stuck
            if self.recovery_rounds >= max_rounds:
                self.stuck = "no-completion-after-recovery-rounds"
                return "stuck:" + self.stuck
            self.recovery_rounds += 1
            before = len(w.events("sbatch"))
            w.note("recovery", n=self.recovery_rounds)
            vt = self.user_cmd(["try-submit-jobs", self.out], name=f"recover{self.recovery_rounds}")
            if not w.run():
                return "budget"
            if on_round is not None:
                on_round(self, vt, before)

    # ------------------------------------------------------------------ views
    def results_summary(self, out=None):
        """results.json of the completed submission: ({name: (return_code, status)}, missing_jobs)."""
        data = read_json(os.path.join(out or self.out, "results.json"))
        if data is None:
            return None
        res = {}
        dup = []
        for r in data["results"]:
            if r["name"] in res:
                dup.append(r["name"])
            res[r["name"]] = (r["return_code"], r["status"], r.get("hpc_job_id"))
        return {"results": res, "missing": list(data["missing_jobs"]), "dups": dup, "raw": data}

    def exceptions(self):
        """Uncaught exceptions of virtual processes (observations, not verdicts)."""
        out = []
        for r in self.w.events("proc_end", "end_batch"):
            if r.get("exc"):
                out.append({"proc": r.get("name", r.get("id")), "kind": r.get("kind"), **r["exc"]})
        return out


def classify_result(rc, status):
    if status == "finished":
        return "successful" if rc == 0 else "failed"
    if status == "canceled" and rc != 0:
        return "canceled"
    return f"other:{status}:{rc}"
