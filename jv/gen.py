"""E2 -- Hypothesis strategies. Everything generated is plain JSON-able data (replay files are JSON)."""

from hypothesis import strategies as st


@st.composite
def dags(draw, min_jobs=1, max_jobs=12, ngroups=1, max_est=6, allow_cycles=False):
    """Jobs in *listing order*; names j0..jN-1 follow a hidden topological order (ji may depend on jk, k<i)."""
    n = draw(st.one_of(st.integers(3, min(8, max_jobs)), st.integers(min_jobs, max_jobs))
             if max_jobs >= 3 and min_jobs <= 3 else st.integers(min_jobs, max_jobs))
    density = draw(st.integers(0, 3))
    jobs = []
    for i in range(n):
        if i == 0 or density == 0:
            blk = []
        else:
            blk = sorted(draw(st.sets(st.integers(0, i - 1), max_size=min(i, density))))
        jobs.append(
            {
                "name": f"j{i}",
                "blocked_by": [f"j{b}" for b in blk],
                "cancel": draw(st.booleans()),
                # exit status as Popen reports it: 0, 1-255, or negative when the process was killed by a signal
                "rc": draw(st.sampled_from([0, 0, 0, 0, 1, 2, 255, -9, -15])),
                "est": draw(st.integers(1, max_est)),
                "group": draw(st.integers(0, ngroups - 1)) if ngroups > 1 else 0,
            }
        )
    if allow_cycles and n >= 2 and draw(st.booleans()):
        # add a back edge (cycle) or a self-dependency
        a = draw(st.integers(0, n - 1))
        b = draw(st.integers(a, n - 1))
        if f"j{b}" not in jobs[a]["blocked_by"]:
            jobs[a]["blocked_by"].append(f"j{b}")
    perm = draw(st.permutations(list(range(n))))
    return [jobs[i] for i in perm]


@st.composite
def group_params(draw, njobs, max_est=6):
    time_based = draw(st.sampled_from([False, False, True]))
    walltime = draw(st.integers(max_est, max_est + 8))
    if time_based:
        nproc = draw(st.integers(1, 3))
    else:
        nproc = draw(st.sampled_from([None, 1, 2, 3]))
    return {
        "batch_size": draw(st.integers(1, max(2, min(njobs + 1, 6)))),
        "time_based": time_based,
        "try_add": draw(st.booleans()),
        "walltime": walltime,
        "nproc": nproc,
        "cpus": draw(st.integers(1, 4)),
        "verbose": draw(st.sampled_from([False] * 9 + [True])),
        # time scale: walltime and the estimates of the group's jobs are multiplied by it (walltimes of minutes, hours
        # -- two-digit hour fields -- and days); hours optionally zero-padded ("04:00:00")
        "tscale": draw(st.sampled_from([1, 1, 1, 1, 1, 10, 60, 100, 150, 240])),
        "pad": draw(st.sampled_from([False, False, True])),
    }


@st.composite
def scenarios(draw, min_jobs=1, max_jobs=12, max_groups=3, mode="hpc", hooks=False, allow_cycles=False,
              reports=None, dry_run=False):
    ngroups = draw(st.sampled_from([1, 1, 2, 3][: max(1, min(4, max_groups + 1))])) if max_groups > 1 else 1
    ngroups = min(ngroups, max_groups)
    jobs = draw(dags(min_jobs=min_jobs, max_jobs=max_jobs, ngroups=ngroups, allow_cycles=allow_cycles))
    groups = [draw(group_params(len(jobs))) for _ in range(ngroups)]
    scn = {
        "jobs": jobs,
        "groups": groups,
        "max_nodes": draw(st.sampled_from([None, 1, 2, 3])),
        "poll": 1,
        "reports": draw(st.booleans()) if reports is None else reports,
        "dry_run": dry_run,
        # --no-distributed-submitter: nodes do not run try-submit-jobs, the operator's commands drive the submission
        "dsub": draw(st.sampled_from([True] * 9 + [False])) if mode == "hpc" else True,
        "mode": mode,
        "hooks": {"setup": False, "teardown": False, "node_setup": False, "node_teardown": False},
    }
    if hooks:
        scn["hooks"] = {k: draw(st.booleans()) for k in ("setup", "teardown", "node_setup", "node_teardown")}
    return scn


@st.composite
def cancel_scenarios(draw, max_jobs=10):
    """Scenarios biased towards cancellation chains: dense edges, many flags, failing roots, and batch
    sizes that put failing jobs and their dependents in the same batch, the next one, or several rounds apart."""
    n = draw(st.integers(3, max_jobs))
    ngroups = draw(st.sampled_from([1, 1, 1, 2]))
    jobs = []
    for i in range(n):
        if i == 0:
            blk = []
        else:
            blk = sorted(draw(st.sets(st.integers(max(0, i - 3), i - 1), min_size=0 if i % 3 == 0 else 1,
                                      max_size=min(i, 2))))
        jobs.append({
            "name": f"j{i}",
            "blocked_by": [f"j{b}" for b in blk],
            "cancel": draw(st.sampled_from([True, True, True, False])),
            "rc": draw(st.sampled_from([0, 0, 0, 0, 1, 3, -9])),
            "est": draw(st.integers(1, 4)),
            "group": draw(st.integers(0, ngroups - 1)) if ngroups > 1 else 0,
        })
    perm = draw(st.permutations(list(range(n))))
    groups = []
    for _ in range(ngroups):
        g = draw(group_params(n, max_est=4))
        g["try_add"] = draw(st.sampled_from([True, True, False]))
        g["batch_size"] = draw(st.sampled_from([1, 2, 3, n, n + 1]))
        groups.append(g)
    return {
        "jobs": [jobs[i] for i in perm],
        "groups": groups,
        "max_nodes": draw(st.sampled_from([None, None, 1, 2])),
        "poll": 1, "reports": False, "dry_run": False, "dsub": True, "mode": "hpc",
        "hooks": {"setup": False, "teardown": False, "node_setup": False, "node_teardown": False},
    }


def schedules(max_size=160):
    """Scheduling choices: element k picks enabled[k % len(enabled)]; 0 = keep running the same process.

    Three shapes are mixed: *sparse* (mostly 0: few pre-emptions, shrinks towards the sequential schedule), *uniform*
    (every step a fresh choice: fine-grained interleaving) and *coarse* (pick a process, then let it run for a drawn
    number of steps: the long pauses that check-then-act races across several critical sections need)."""
    sparse = st.lists(st.one_of(st.just(0), st.integers(0, 11)), max_size=max_size)
    sparse_long = st.lists(st.sampled_from([0, 0, 0, 0, 0, 1, 2, 3, 5, 7]), min_size=max_size // 2, max_size=max_size)
    uniform = st.lists(st.integers(0, 11), min_size=max_size // 3, max_size=max_size)
    coarse = st.lists(st.tuples(st.integers(1, 11), st.integers(0, 70)), min_size=3, max_size=max(6, max_size // 8)).map(
        lambda segs: [x for pick, run in segs for x in [pick] + [0] * run][: max_size * 3])
    # Hypothesis draws short lists by default: the long variants make sure pre-emptions also happen late in a run
    # PCT-style: random process priorities; 1-3 "change points" that hold a process back for a while right after its
    # n-th release of the cluster lock (between two critical sections) -- finds ordering bugs of small depth
    # "any": count the releases of every lock (cluster state and result files) instead of the cluster lock only
    pause = st.fixed_dictionaries({"thread": st.sampled_from([0, 1, 1, 2, 2, 3, 3, 4, 5, 6]), "release": st.integers(1, 9),
                                   "steps": st.integers(20, 250), "any": st.sampled_from([False, False, True])})
    pct = st.fixed_dictionaries({
        "picks": st.one_of(st.just([]), sparse),
        "prio": st.lists(st.integers(0, 9), min_size=8, max_size=8),
        "pauses": st.lists(pause, min_size=1, max_size=3),
    })
    return st.one_of(sparse, sparse_long, uniform, uniform, coarse, coarse, pct, pct, pct)


def scenario_classes(scn):
    """Labels describing the generated shape (copied into the evidence's class distribution)."""
    labels = []
    n = len(scn["jobs"])
    labels.append(f"jobs:{'1-2' if n < 3 else '3-8' if n <= 8 else '9-12'}")
    labels.append(f"groups:{len(scn['groups'])}")
    if any(j["blocked_by"] for j in scn["jobs"]):
        labels.append("has_edges")
    pos = {j["name"]: i for i, j in enumerate(scn["jobs"])}
    if any(pos.get(b, -1) > pos[j["name"]] for j in scn["jobs"] for b in j["blocked_by"]):
        labels.append("blocked_listed_before_blocker")
    if any(g["time_based"] for g in scn["groups"]):
        labels.append("time_based")
    if any(g["time_based"] and g["try_add"] for g in scn["groups"]):
        labels.append("time_based+try_add")
    if scn["max_nodes"] is not None:
        labels.append(f"max_nodes:{scn['max_nodes']}")
    if any(j["rc"] != 0 for j in scn["jobs"]):
        labels.append("has_failure")
    if any(j["cancel"] and j["blocked_by"] for j in scn["jobs"]):
        labels.append("has_flagged_dependent")
    if not scn.get("dsub", True):
        labels.append("no_distributed_submitter")
    return labels
