"""Runner: ./check <ID> <quick|thorough>   |   ./check <ID> --replay FILE   |   ./check selftest

Parent process: shards the work over N worker processes (distinct derived seeds), merges their statistics,
writes /verif/evidence/<ID>.json, writes a replay file and prints `VIOLATION property=<ID> replay=<path>`
(exit 1) on a violation, prints `KNOWN-FINDING: ...` lines for listed findings (exit 0), exit 2 on harness
errors (never a VIOLATION line).
"""

import hashlib
import importlib
import json
import os
import subprocess
import sys
import time
import traceback

VERIF = os.path.dirname(os.path.dirname(os.path.abspath(__file__)))
# JV_REPLAY_DIR / JV_EVIDENCE_DIR: only used when the checks themselves are tested against seeded changes in
# scratch worktrees (JV_REPO), so that those runs do not overwrite the evidence of the real tree.
REPLAYS = os.environ.get("JV_REPLAY_DIR") or os.path.join(VERIF, "replays")
REGRESS = os.path.join(VERIF, "replays", "regress")
EVIDENCE = os.environ.get("JV_EVIDENCE_DIR") or os.path.join(VERIF, "evidence")
KNOWN = os.path.join(VERIF, "known_findings.json")

SHRINK_CAP = {"quick": 45.0, "thorough": 240.0}


def canon(obj):
    return json.dumps(obj, sort_keys=True, separators=(",", ":"), default=str)


def case_hash(case):
    return hashlib.sha1(canon(case).encode()).hexdigest()[:16]


def load_known(pid):
    try:
        with open(KNOWN) as f:
            data = json.load(f)
    except FileNotFoundError:
        return []
    return [e for e in data.get("findings", []) if e.get("property") == pid and e.get("status") == "open"]


def match_known(known, viol):
    for e in known:
        if viol["sig"] == e.get("sig") or (e.get("sig_prefix") and viol["sig"].startswith(e["sig_prefix"])):
            return e
    return None


def load_module(pid):
    return importlib.import_module(f"jv.props.{pid.lower()}")


# --------------------------------------------------------------------------------------------------
# worker
# --------------------------------------------------------------------------------------------------


class Violation(Exception):
    pass


class _Stats:
    def __init__(self):
        self.evaluations = 0
        self.nontrivial = set()
        self.classes = {}
        self.samples = []
        self.inconclusive = {}
        self.known_hits = {}
        self.excluded = 0
        self.violations = []
        self.notes = {}
        self.inc_samples = {}

    def add(self, case, res, keep_sample=True):
        self.evaluations += 1
        for c in res.get("classes", ()):
            self.classes[c] = self.classes.get(c, 0) + 1
        inc = res.get("inconclusive")
        if inc:
            self.inconclusive[inc] = self.inconclusive.get(inc, 0) + 1
            self.inc_samples.setdefault(inc, case)
        if res.get("excluded"):
            self.excluded += 1
        if res.get("nontrivial"):
            h = case_hash(case)
            new = h not in self.nontrivial
            self.nontrivial.add(h)
            if keep_sample and new and len(self.samples) < 3 and res.get("sample") is not None:
                self.samples.append(res["sample"])
        for k, v in (res.get("counters") or {}).items():
            self.notes[k] = self.notes.get(k, 0) + v

    def dump(self):
        return {
            "evaluations": self.evaluations,
            "nontrivial": sorted(self.nontrivial),
            "classes": self.classes,
            "samples": self.samples,
            "inconclusive": self.inconclusive,
            "known_hits": self.known_hits,
            "excluded": self.excluded,
            "violations": self.violations,
            "counters": self.notes,
            "inc_samples": self.inc_samples,
        }


def evaluate(mod, case, stats, known, keep_sample=True):
    """Run one case; returns the list of violations that are not listed known findings."""
    hung_before = _hung_total()
    res = mod.run_case(case)
    if _hung_total() != hung_before:
        # the wall-clock hang protection fired (a process did not reach a scheduling point for 90 s, e.g. on an
        # overloaded machine): whatever the oracle saw afterwards is a harness artefact -- inconclusive, never a verdict
        res["violations"] = []
        res["inconclusive"] = "hang-protection"
        res["nontrivial"] = False
    stats.add(case, res, keep_sample)
    fresh = []
    for v in res.get("violations", ()):
        e = match_known(known, v)
        if e is not None:
            k = e["sig"] if "sig" in e else e["sig_prefix"]
            stats.known_hits[k] = stats.known_hits.get(k, 0) + 1
        else:
            fresh.append(v)
    return res, fresh


def _hung_total():
    w = sys.modules.get("jv.world")
    return w.HUNG_TOTAL[0] if w is not None else 0


def sig_class(sig):
    return sig.split("|", 1)[0]


def pin_to_cpu(shard):
    """Each worker hands a baton between two threads thousands of times per second; on one CPU that is a
    cheap local wake-up, across CPUs of a VM it costs an inter-processor interrupt (measured 4x slower)."""
    try:
        cpus = sorted(os.sched_getaffinity(0))
        os.sched_setaffinity(0, {cpus[shard % len(cpus)]})
    except (AttributeError, OSError):
        pass


def worker_main(pid, tier, shard, nshards, seed, outfile):
    t0 = time.time()
    pin_to_cpu(shard)
    mod = load_module(pid)
    stats = _Stats()
    known = load_known(pid)
    found = None  # first unknown violation: {"case", "viol", "phase"}
    error = None
    try:
        if hasattr(mod, "setup"):
            mod.setup(tier)
        # 1. regression replays (bypass Hypothesis), shard 0 only
        if shard == 0 and os.path.isdir(REGRESS):
            for fn in sorted(os.listdir(REGRESS)):
                if fn.startswith(pid + "-") and fn.endswith(".json"):
                    with open(os.path.join(REGRESS, fn)) as f:
                        rp = json.load(f)
                    res, fresh = evaluate(mod, rp["case"], stats, known, keep_sample=False)
                    stats.notes["regress_replays"] = stats.notes.get("regress_replays", 0) + 1
                    if fresh and found is None:
                        found = {"case": rp["case"], "viols": fresh, "phase": f"regress:{fn}", "res": res}
        # 1b. replays of listed (open) known findings: they must still reproduce (counted as known hits, never raised)
        known_dir = os.path.join(VERIF, "replays", "regress-known")
        if shard == 0 and os.path.isdir(known_dir):
            for fn in sorted(os.listdir(known_dir)):
                if fn.startswith(pid + "-") and fn.endswith(".json"):
                    with open(os.path.join(known_dir, fn)) as f:
                        rp = json.load(f)
                    before = sum(stats.known_hits.values())
                    res, fresh = evaluate(mod, rp["case"], stats, known, keep_sample=False)
                    stats.notes["known_finding_replays"] = stats.notes.get("known_finding_replays", 0) + 1
                    if sum(stats.known_hits.values()) == before:
                        stats.notes["known_finding_replays_no_longer_failing"] = stats.notes.get("known_finding_replays_no_longer_failing", 0) + 1
                    if fresh and found is None:
                        found = {"case": rp["case"], "viols": fresh, "phase": f"regress-known:{fn}", "res": res}
        # 2. enumerated sub-spaces
        if found is None and hasattr(mod, "enumerate_cases"):
            n = 0
            for i, case in enumerate(mod.enumerate_cases(tier)):
                if i % nshards != shard:
                    continue
                res, fresh = evaluate(mod, case, stats, known)
                n += 1
                if fresh:
                    found = {"case": case, "viols": fresh, "phase": "enumerate", "res": res}
                    break
            stats.notes["enumerated"] = stats.notes.get("enumerated", 0) + n
        # 3. Hypothesis
        budget = mod.BUDGET[tier]
        n_examples = max(1, budget // nshards) if budget else 0
        if found is None and n_examples:
            found = hypothesis_phase(mod, tier, derive_seed(seed, shard), n_examples, stats, known)
        # 4. optional extra phase of the property (coverage-guided fuzzing campaigns of C18)
        if found is None and hasattr(mod, "post_phase"):
            extra = mod.post_phase(tier, shard, nshards, derive_seed(seed, 1000 + shard), stats)
            if extra is not None:
                res, fresh = evaluate(mod, extra["case"], stats, known)
                if fresh:
                    found = {"case": extra["case"], "viols": fresh, "phase": extra.get("phase", "post"), "res": res}
    except BaseException as e:  # noqa: B036
        error = "".join(traceback.format_exception(type(e), e, e.__traceback__))[-4000:]
    finally:
        try:
            if hasattr(mod, "teardown"):
                mod.teardown()
        except Exception:
            pass
    out = stats.dump()
    out["wall_s"] = time.time() - t0
    out["error"] = error
    if found is not None:
        res = found.pop("res", None)
        found["log"] = (res or {}).get("replay_log")
        out["found"] = found
    with open(outfile, "w") as f:
        json.dump(out, f, default=str)
    return 0


def derive_seed(seed, shard):
    h = hashlib.sha256(f"{seed}:{shard}".encode()).digest()
    return int.from_bytes(h[:6], "big")


def hypothesis_phase(mod, tier, hseed, n_examples, stats, known):
    from hypothesis import HealthCheck, Phase, given, seed, settings

    cap = SHRINK_CAP[tier]
    state = {"first": None, "target": None, "best": None}

    class StopShrink(KeyboardInterrupt):
        pass

    @seed(hseed)
    @settings(
        max_examples=n_examples,
        deadline=None,
        database=None,
        derandomize=False,
        report_multiple_bugs=False,
        suppress_health_check=list(HealthCheck),
        phases=[Phase.generate, Phase.shrink],
    )
    @given(mod.strategy(tier))
    def test(case):
        if state["first"] is not None and time.monotonic() - state["first"] > cap:
            raise StopShrink()
        shrinking = state["first"] is not None
        res, fresh = evaluate(mod, case, stats, known, keep_sample=not shrinking)
        if shrinking:
            fresh = [v for v in fresh if sig_class(v["sig"]) == state["target"]]
        if fresh:
            if state["first"] is None:
                state["first"] = time.monotonic()
                state["target"] = sig_class(fresh[0]["sig"])
                fresh = [v for v in fresh if sig_class(v["sig"]) == state["target"]]
            state["best"] = {"case": case, "viols": fresh, "phase": "hypothesis", "res": res}
            raise Violation(fresh[0]["sig"])

    try:
        test()
    except Violation:
        pass
    except StopShrink:
        if state["best"] is not None:
            state["best"]["phase"] = "hypothesis(shrink capped)"
    except Exception as e:  # noqa: BLE001
        if type(e).__name__ in ("Flaky", "FlakyFailure", "FlakyReplay"):
            # the failure did not reproduce on the immediate re-run of the same case: not a verdict. The case is kept
            # (replays/inconclusive-*.json) and counted; a check must never raise an alarm it cannot reproduce.
            stats.inconclusive["flaky-not-reproducible"] = stats.inconclusive.get("flaky-not-reproducible", 0) + 1
            if state["best"] is not None:
                stats.inc_samples.setdefault("flaky-not-reproducible", state["best"]["case"])
            return None
        raise
    if state["best"] is not None:
        # confirm outside Hypothesis: the reported case must fail again when run on its own
        res2, fresh2 = evaluate(mod, state["best"]["case"], stats, known, keep_sample=False)
        if not [v for v in fresh2 if sig_class(v["sig"]) == state["target"]]:
            stats.inconclusive["flaky-not-reproducible"] = stats.inconclusive.get("flaky-not-reproducible", 0) + 1
            stats.inc_samples.setdefault("flaky-not-reproducible", state["best"]["case"])
            return None
    return state["best"]


# --------------------------------------------------------------------------------------------------
# parent
# --------------------------------------------------------------------------------------------------


def nworkers():
    try:
        return max(1, int(os.environ.get("JV_WORKERS", "") or min(16, os.cpu_count() or 1)))
    except ValueError:
        return 16


def run_check(pid, tier):
    t0 = time.time()
    seed = int(os.environ.get("VERIF_SEED", "1") or 1)
    mod = load_module(pid)
    n = nworkers()
    if getattr(mod, "MAX_WORKERS", None):
        n = min(n, mod.MAX_WORKERS)
    import tempfile

    tmp = tempfile.mkdtemp(prefix=f"jvrun_{pid}_")
    procs = []
    for s in range(n):
        outfile = os.path.join(tmp, f"shard{s}.json")
        cmd = [sys.executable, "-B", "-m", "jv.runner", "--worker", pid, tier, str(s), str(n), str(seed), outfile]
        procs.append((s, outfile, subprocess.Popen(cmd, cwd=VERIF, stdout=subprocess.PIPE, stderr=subprocess.STDOUT)))
    shards = []
    errors = []
    for s, outfile, p in procs:
        out, _ = p.communicate()
        if not os.path.exists(outfile):
            errors.append(f"shard {s} died rc={p.returncode}: {out.decode(errors='replace')[-3000:]}")
            continue
        with open(outfile) as f:
            d = json.load(f)
        if d.get("error"):
            errors.append(f"shard {s}: {d['error']}")
        shards.append(d)
    import shutil

    shutil.rmtree(tmp, ignore_errors=True)

    evaluations = sum(d["evaluations"] for d in shards)
    nontrivial = set()
    classes, inconclusive, known_hits, counters = {}, {}, {}, {}
    samples = []
    excluded = 0
    founds = []
    for d in shards:
        nontrivial.update(d["nontrivial"])
        for src, dst in ((d["classes"], classes), (d["inconclusive"], inconclusive), (d["known_hits"], known_hits),
                         (d["counters"], counters)):
            for k, v in src.items():
                dst[k] = dst.get(k, 0) + v
        for smp in d["samples"]:
            if len(samples) < 4:
                samples.append(smp)
        excluded += d["excluded"]
        for reason, case in (d.get("inc_samples") or {}).items():
            os.makedirs(REPLAYS, exist_ok=True)
            with open(os.path.join(REPLAYS, f"inconclusive-{pid}-{reason.replace(':', '_').replace('/', '_')}.json"), "w") as f:
                json.dump({"property": pid, "case": case, "inconclusive": reason}, f)
        if d.get("found"):
            founds.append(d["found"])
    wall = time.time() - t0

    replay_paths = []
    seen_classes = set()
    for fnd in founds:
        cls = sig_class(fnd["viols"][0]["sig"])
        if cls in seen_classes:
            continue
        seen_classes.add(cls)
        os.makedirs(REPLAYS, exist_ok=True)
        path = os.path.join(REPLAYS, f"{pid}-{case_hash(fnd['case'])}.json")
        with open(path, "w") as f:
            json.dump({"property": pid, "tier": tier, "seed": seed, "phase": fnd["phase"], "violations": fnd["viols"],
                       "case": fnd["case"], "log": fnd.get("log")}, f, indent=1, default=str)
        replay_paths.append((path, fnd))

    coverage = {
        "evaluations": evaluations,
        "distinct_nontrivial": len(nontrivial),
        "rule": mod.RULE,
        "samples": samples if samples else [{"note": "no non-trivial sample kept"}],
        "class_distribution": dict(sorted(classes.items())),
        "inconclusive": inconclusive,
        "excluded_by_known_finding": excluded,
        "known_finding_hits": known_hits,
        "counters": counters,
        "shards": len(shards),
        "exhaustive": bool(getattr(mod, "EXHAUSTIVE", {}).get(tier, False)) if hasattr(mod, "EXHAUSTIVE") else False,
    }
    if hasattr(mod, "EXPLANATION"):
        coverage["explanation"] = mod.EXPLANATION
    ev = {
        "property_id": pid,
        "tier": tier,
        "seed": seed,
        "level": mod.LEVEL,
        "coverage": coverage,
        "assumptions": list(mod.ASSUMPTIONS),
        "wall_s": round(wall, 2),
        "violations": len(replay_paths),
    }
    if errors:
        ev["harness_errors"] = errors[:5]
    os.makedirs(EVIDENCE, exist_ok=True)
    with open(os.path.join(EVIDENCE, f"{pid}.json"), "w") as f:
        json.dump(ev, f, indent=1, default=str)
        f.write("\n")

    print(f"[{pid} {tier}] seed={seed} shards={len(shards)} evaluations={evaluations} "
          f"distinct_nontrivial={len(nontrivial)} inconclusive={sum(inconclusive.values())} wall={wall:.1f}s")
    if classes:
        tot = max(1, evaluations)
        print("  classes: " + ", ".join(f"{k}={100 * v // tot}%" for k, v in sorted(classes.items())))
    if counters:
        print("  counters: " + ", ".join(f"{k}={v}" for k, v in sorted(counters.items())))
    for e in load_known(pid):
        k = e.get("sig") or e.get("sig_prefix")
        print(f"KNOWN-FINDING: property={pid} {e.get('what', k)} (hits this run: {known_hits.get(k, 0)})")
    if replay_paths:
        for path, fnd in replay_paths:
            v = fnd["viols"][0]
            print(f"  violation [{fnd['phase']}] {v['sig']}: {v['msg'][:600]}")
            print(f"VIOLATION property={pid} replay={path}")
        return 1
    if errors:
        for e in errors[:3]:
            print("HARNESS ERROR:", e, file=sys.stderr)
        return 2
    if evaluations == 0:
        print("HARNESS ERROR: nothing evaluated", file=sys.stderr)
        return 2
    return 0


def run_replay(pid, path):
    mod = load_module(pid)
    with open(path) as f:
        rp = json.load(f)
    known = load_known(pid)
    if hasattr(mod, "setup"):
        mod.setup("quick")
    try:
        res = mod.run_case(rp["case"])
    finally:
        if hasattr(mod, "teardown"):
            mod.teardown()
    fresh = [v for v in res.get("violations", ()) if match_known(known, v) is None]
    for v in res.get("violations", ()):
        print(f"  {v['sig']}: {v['msg'][:1000]}")
    if os.environ.get("JV_SHOW_LOG") and res.get("replay_log"):
        for r in res["replay_log"]:
            print("   ", r)
    if fresh:
        print(f"VIOLATION property={pid} replay={path}")
        return 1
    print(f"[{pid}] replay {os.path.basename(path)}: no violation")
    return 0


def main(argv):
    if len(argv) >= 1 and argv[0] == "--worker":
        pid, tier, shard, nshards, seed, outfile = argv[1:7]
        return worker_main(pid, tier, int(shard), int(nshards), int(seed), outfile)
    if len(argv) >= 1 and argv[0] == "selftest":
        from jv import selftest

        return selftest.main(argv[1:])
    if len(argv) < 2:
        print(__doc__)
        return 2
    pid = argv[0].upper()
    try:
        if argv[1] == "--replay":
            return run_replay(pid, argv[2])
        tier = argv[1]
        if tier not in ("quick", "thorough"):
            print(__doc__)
            return 2
        return run_check(pid, tier)
    except SystemExit:
        raise
    except BaseException:  # noqa: B036
        traceback.print_exc()
        return 2


if __name__ == "__main__":
    sys.exit(main(sys.argv[1:]))
