"""jv -- property-based verification machinery for NREL/jade (see /verif/DESIGN.md)."""
