"""E5 -- coverage-guided fuzzing (atheris / libFuzzer) of the two SLURM text parsers, with the C18 oracles inside the
target.  Run as a subprocess by the thorough tier of C18:

    python -m jv.fuzz <runs> <seed> <corpus: empty|seeded> <outfile>

Bytes are decoded by a data provider into (kind, target id, exit code, text).  The reference interpretation of the
text is written independently of JADE's parser.  A violation is written to <outfile> as a JSON case in the same
format as the Hypothesis cases of C18 ('fuzz_status' / 'fuzz_submit'), and the process exits 77.
"""

import json
import os
import re
import sys
import tempfile


def reference_status(text, target):
    """(present, state) of `target` as a reader of `squeue -h --Format jobid,state` output understands it."""
    present, state = False, None
    for line in text.split("\n"):
        f = line.split()
        if len(f) == 2 and f[0] == target:
            present, state = True, f[1]
    return present, state


def check_status(text, target):
    """Returns a violation message or None. Uses the real collector / submitter objects."""
    import types

    import jade.utils.run_command as rc
    from jade.hpc.hpc_manager import HpcManager
    from jade.hpc.hpc_submitter import AsyncHpcSubmitter, HpcStatusCollector
    from jade.models import HpcConfig, SlurmConfig, SubmissionGroup, SubmitterParams

    global _MGR
    if _MGR is None:
        hpc = HpcConfig(hpc_type="slurm", hpc=SlurmConfig(account="a"))
        group = SubmissionGroup(name="g", submitter_params=SubmitterParams(hpc_config=hpc))
        _MGR = HpcManager({"g": group}, "/nonexistent")
    orig, orig_time = rc._run_command, rc.time

    def fake(command, output, cwd, **kw):
        if output is not None:
            output["stdout"], output["stderr"] = text, ""
        return 0

    rc._run_command = fake
    rc.time = types.SimpleNamespace(sleep=lambda s: None, time=orig_time.time)
    try:
        sub = AsyncHpcSubmitter.create_from_id(_MGR, HpcStatusCollector(_MGR, 10), target)
        try:
            done = sub.is_complete()
        except Exception:  # noqa: BLE001  refusing to decide is conservative
            return None
    finally:
        rc._run_command, rc.time = orig, orig_time
    present, state = reference_status(text, target)
    if done and present and state not in ("COMPLETED", "COMPLETING"):
        return f"squeue output {text!r}: batch {target} is in state {state!r} but is_complete() returned True"
    return None


def check_submit(text, rcode):
    import types

    import jade.utils.run_command as rc
    from jade.enums import Status
    from jade.hpc.slurm_manager import SlurmManager
    from jade.models import HpcConfig, SlurmConfig

    orig, orig_time = rc._run_command, rc.time
    calls = []

    def fake(command, output, cwd, **kw):
        calls.append(command)
        if output is not None:
            output["stdout"], output["stderr"] = text, ""
        return rcode

    rc._run_command = fake
    rc.time = types.SimpleNamespace(sleep=lambda s: None, time=orig_time.time)
    try:
        mgr = SlurmManager(HpcConfig(hpc_type="slurm", hpc=SlurmConfig(account="a")))
        try:
            status, job_id, _ = mgr.submit("/tmp/x.sh")
        except Exception as e:  # noqa: BLE001
            return f"sbatch response {text!r} (exit {rcode}) made submit() raise {type(e).__name__}"
    finally:
        rc._run_command, rc.time = orig, orig_time
    m = re.search(r"Submitted batch job ([0-9]+)", text)
    good = rcode == 0 and m is not None
    if good != (status == Status.GOOD):
        return f"sbatch exit {rcode} stdout {text!r}: status {status}, expected {'GOOD' if good else 'ERROR'}"
    if good and job_id != m.group(1):
        return f"sbatch stdout {text!r}: job id {job_id!r}, expected {m.group(1)!r}"
    if len(calls) > 7:
        return f"sbatch executed {len(calls)} times"
    return None


_MGR = None
STATES = ["BOOT_FAIL", "CANCELLED", "COMPLETED", "CONFIGURING", "COMPLETING", "DEADLINE", "FAILED", "NODE_FAIL", "OUT_OF_MEMORY",
          "PENDING", "PREEMPTED", "RUNNING", "RESV_DEL_HOLD", "REQUEUE_FED", "REQUEUE_HOLD", "REQUEUED", "RESIZING", "REVOKED",
          "SIGNALING", "SPECIAL_EXIT", "STAGE_OUT", "STOPPED", "SUSPENDED", "TIMEOUT"]


def main(argv):
    runs, seed, corpus_kind, outfile = int(argv[0]), int(argv[1]), argv[2], argv[3]
    import logging

    scratch = tempfile.mkdtemp(prefix="jvfuzz_")
    os.environ["JADE_REGISTRY"] = os.path.join(scratch, "registry.json")
    logging.disable(logging.CRITICAL)
    import atheris

    with atheris.instrument_imports(include=["jade.hpc.slurm_manager", "jade.hpc.hpc_submitter", "jade.utils.run_command"]):
        import jade.hpc.hpc_submitter  # noqa: F401
        import jade.hpc.slurm_manager  # noqa: F401
        import jade.utils.run_command  # noqa: F401
    counts = {"execs": 0, "status": 0, "submit": 0, "status_present_unfinished": 0}

    def target(data):
        fdp = atheris.FuzzedDataProvider(data)
        kind = fdp.ConsumeIntInRange(0, 2)
        counts["execs"] += 1
        if kind < 2:
            tid = str(fdp.ConsumeIntInRange(1, 99999))
            if kind == 0:
                text = fdp.ConsumeUnicodeNoSurrogates(400).replace("@", tid)  # raw text; '@' places the target id
            else:
                # structured layer: lines built from the state vocabulary, blanks and raw tokens
                lines = []
                for _ in range(fdp.ConsumeIntInRange(0, 6)):
                    mode = fdp.ConsumeIntInRange(0, 4)
                    pad = " \t"[fdp.ConsumeIntInRange(0, 1)] * fdp.ConsumeIntInRange(1, 4)
                    lead = " " * fdp.ConsumeIntInRange(0, 2)
                    if mode == 0:
                        lines.append(f"{lead}{tid}{pad}{STATES[fdp.ConsumeIntInRange(0, len(STATES) - 1)]}{pad}")
                    elif mode == 1:
                        lines.append(f"{lead}{fdp.ConsumeIntInRange(100000, 999999)}{pad}{STATES[fdp.ConsumeIntInRange(0, len(STATES) - 1)]}")
                    elif mode == 2:
                        lines.append(fdp.ConsumeUnicodeNoSurrogates(30).replace("\n", " "))
                    elif mode == 3:
                        lines.append(f"{lead}{tid}{pad}{fdp.ConsumeUnicodeNoSurrogates(12).replace(chr(10), '')}")
                    else:
                        lines.append("")
                text = "\n".join(lines)
            counts["status"] += 1
            p, s = reference_status(text, tid)
            if p and s not in ("COMPLETED", "COMPLETING"):
                counts["status_present_unfinished"] += 1
            msg = check_status(text, tid)
            case = {"kind": "fuzz_status", "text": text, "target": tid}
        else:
            rcode = fdp.ConsumeIntInRange(0, 2)
            text = fdp.ConsumeUnicodeNoSurrogates(200)
            counts["submit"] += 1
            msg = check_submit(text, rcode)
            case = {"kind": "fuzz_submit", "text": text, "rc": rcode}
        if msg:
            with open(outfile, "w") as f:
                json.dump({"case": case, "msg": msg, "counts": counts}, f)
            os._exit(77)

    corpus = os.path.join(scratch, "corpus")
    os.makedirs(corpus)
    if corpus_kind == "seeded":
        sample = "/repo/tests/data/squeue_status.txt"
        body = open(sample, "rb").read() if os.path.exists(sample) else b"10 PENDING\n11 RUNNING\n"
        with open(os.path.join(corpus, "squeue"), "wb") as f:
            f.write(b"\x00\x0a\x00\x00\x00" + body)
        with open(os.path.join(corpus, "squeue2"), "wb") as f:
            f.write(b"\x01\x0c\x00\x00\x00" + b"@   COMPLETED\n@ SUSPENDED \n13 RUNNING\n" + b"\x01")
        with open(os.path.join(corpus, "sbatch"), "wb") as f:
            f.write(b"\x02\x00" + b"Submitted batch job 4242\n")
    import atexit  # noqa: F401

    def finish():
        with open(outfile, "w") as f:
            json.dump({"case": None, "counts": counts}, f)

    # libFuzzer exits the process itself: write the counters from the last executions
    orig_target = target

    def counted(data):
        orig_target(data)
        if counts["execs"] % 2000 == 0:
            finish()

    atheris.Setup([sys.argv[0], f"-runs={runs}", f"-seed={seed}", "-max_len=600", "-print_final_stats=0", "-verbosity=0", corpus], counted)
    finish()
    atheris.Fuzz()


if __name__ == "__main__":
    main(sys.argv[1:])
