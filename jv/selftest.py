"""Self-test of the trusted base (run by MANIFEST.setup_cmd and by hand: ./check selftest).

1. lock model vs the real filelock.SoftFileLock (single-process differential: marker format, release, leftover
   markers of dead owners, malformed markers old / fresh, generated acquire/release sequences);
2. the simulator's squeue text goes through JADE's real parser and has the layout of tests/data/squeue_status.txt;
3. the world reproduces the outcomes of two of the repository's own integration scenarios that cannot run here for
   lack of the `jade` executable (test_try_add_blocked_jobs: 1 batch vs 2 batches; test_cancel_on_failure: a chain
   canceled behind a failing job, detected on the node and by the submitter).
Exit 0 on success, 2 on failure (a harness problem, never a VIOLATION).
"""

import os
import shutil
import sys
import tempfile
import time


def _fail(msg):
    print("SELFTEST FAILED:", msg)
    return 2


def lock_differential():
    from jv import world as W

    W.install()
    import filelock

    tmp = tempfile.mkdtemp(prefix="jvself_")
    try:
        real_cls = W.REAL.SoftFileLock
        # (a) marker format of the real lock: "<pid>\n<host>\n[...]" -- what the model parses and writes
        lf = os.path.join(tmp, "a.lock")
        r = real_cls(lf, timeout=1)
        r.acquire()
        lines = open(lf).read().splitlines()
        if int(lines[0]) != os.getpid() or len(lines) < 2:
            return f"real marker format unexpected: {lines}"
        if W._parse_holder(open(lf).read()) != (os.getpid(), lines[1]):
            return "model cannot parse the real marker"
        r.release()
        if os.path.exists(lf):
            return "real release left the marker"
        # (b) leftover marker of a dead pid on this host: real 3.32 breaks it (self-heal)
        dead = 2 ** 22 + 12345
        host = lines[1]
        with open(lf, "w") as f:
            f.write(f"{dead}\n{host}\n")
        r = real_cls(lf, timeout=1)
        try:
            r.acquire()
            r.release()
            real_breaks_dead = True
        except filelock.Timeout:
            real_breaks_dead = False
            os.remove(lf)
        # (c) malformed marker older than 2 s: real breaks it; fresh: real times out
        with open(lf, "w"):
            pass
        old = time.time() - 10
        os.utime(lf, (old, old))
        r = real_cls(lf, timeout=1)
        try:
            r.acquire()
            r.release()
            real_breaks_old_malformed = True
        except filelock.Timeout:
            real_breaks_old_malformed = False
            os.remove(lf)
        with open(lf, "w"):
            pass
        r = real_cls(lf, timeout=0.2)
        try:
            r.acquire()
            r.release()
            real_fresh_malformed_times_out = False
        except filelock.Timeout:
            real_fresh_malformed_times_out = True
            os.remove(lf)
        real = (real_breaks_dead, real_breaks_old_malformed, real_fresh_malformed_times_out)
        # the model in 'selfheal' mode must agree with the installed library; 'classic' never breaks a marker
        for mode in ("selfheal", "classic"):
            got = []
            for scenario in ("dead", "old_malformed", "fresh_malformed"):
                root = tempfile.mkdtemp(prefix="w_", dir=tmp)
                w = W.World(root, lock_mode=mode)
                mf = os.path.join(w.root, "m.lock")
                box = {}
                with w:
                    if scenario == "dead":
                        with open(mf, "w") as f:
                            f.write("999999\nlogin1\n")  # no such virtual pid
                    else:
                        with open(mf, "w"):
                            pass
                        w._marker_times[mf] = w.clock - (10 if scenario == "old_malformed" else 0)

                    def body():
                        lk = filelock.SoftFileLock(mf, timeout=0.2 if scenario == "fresh_malformed" else 300)
                        try:
                            lk.acquire()
                            box["ok"] = True
                            lk.release()
                        except filelock.Timeout:
                            box["ok"] = False
                        raise SystemExit(0)

                    w.spawn("p", "login1", {}, body, "selftest")
                    w.run()
                got.append(box.get("ok"))
            want = [real[0], real[1], not real[2]] if mode == "selfheal" else [False, False, False]
            if got != want:
                return f"lock model ({mode}) disagrees: model acquired={got}, expected {want} (real library: {real})"
        # (d) generated single-process sequences: marker exists iff held, for model and real alike
        from hypothesis import HealthCheck, given, seed, settings
        from hypothesis import strategies as st

        problems = []

        @seed(20240501)
        @settings(max_examples=60, deadline=None, database=None, suppress_health_check=list(HealthCheck))
        @given(st.lists(st.tuples(st.integers(0, 1), st.sampled_from(["acquire", "release"])), max_size=12))
        def run(ops):
            rdir = tempfile.mkdtemp(prefix="r_", dir=tmp)
            real_locks = [real_cls(os.path.join(rdir, f"l{i}.lock"), timeout=1) for i in range(2)]
            real_trace, held = [], [0, 0]
            for i, op in ops:
                if op == "acquire":
                    real_locks[i].acquire()
                    held[i] += 1
                elif held[i]:
                    real_locks[i].release()
                    held[i] -= 1
                real_trace.append(tuple(os.path.exists(x.lock_file) for x in real_locks))
            for i in range(2):
                while held[i]:
                    real_locks[i].release()
                    held[i] -= 1
            root = tempfile.mkdtemp(prefix="m_", dir=tmp)
            w = W.World(root)
            model_trace = []
            with w:
                def body():
                    locks = [filelock.SoftFileLock(os.path.join(w.root, f"l{i}.lock"), timeout=1) for i in range(2)]
                    h = [0, 0]
                    for i, op in ops:
                        if op == "acquire":
                            locks[i].acquire()
                            h[i] += 1
                        elif h[i]:
                            locks[i].release()
                            h[i] -= 1
                        model_trace.append(tuple(os.path.exists(x.lock_file) for x in locks))
                    raise SystemExit(0)

                w.spawn("p", "login1", {}, body, "selftest")
                w.run()
            if model_trace != real_trace:
                problems.append((ops, real_trace, model_trace))

        run()
        if problems:
            return f"lock model differs from the real lock on a sequence: {problems[0]}"
        return None
    finally:
        shutil.rmtree(tmp, ignore_errors=True)


def squeue_roundtrip():
    from jv import hpcsim as H  # noqa: F401  (installs the world, imports jade)
    from jade.hpc.common import HpcJobStatus
    from jade.hpc.slurm_manager import SlurmManager

    sample = open("/repo/tests/data/squeue_status.txt").read() if os.path.exists("/repo/tests/data/squeue_status.txt") else None
    text = "".join(f"{j:<20}{s:<20}\n" for j, s in (("1000", "PENDING"), ("1001", "RUNNING"), ("1002", "COMPLETED"), ("1003", "SUSPENDED")))
    got = SlurmManager._get_statuses_from_output(text)
    want = {"1000": HpcJobStatus.QUEUED, "1001": HpcJobStatus.RUNNING, "1002": HpcJobStatus.COMPLETE, "1003": HpcJobStatus.UNKNOWN}
    if got != want:
        return f"simulator squeue text parsed as {got}"
    if sample is not None:
        first = sample.splitlines()[0]
        if len(first.split()) != 2 or not first.split()[0].isdigit():
            return "tests/data/squeue_status.txt has an unexpected layout"
    return None


def repo_scenarios():
    from jv import hpcsim as H
    from jv import world as W

    H.scratch_root()
    W.install_stdio()
    try:
        nohooks = {"setup": False, "teardown": False, "node_setup": False, "node_teardown": False}
        # test_try_add_blocked_jobs: 5 jobs, the last blocked by the other four, batch size 500
        jobs = [{"name": f"j{i}", "blocked_by": [], "cancel": False, "rc": 0, "est": 1, "group": 0} for i in range(4)]
        jobs.append({"name": "j4", "blocked_by": ["j0", "j1", "j2", "j3"], "cancel": False, "rc": 0, "est": 1, "group": 0})
        for try_add, want in ((True, [5]), (False, [4, 1])):
            scn = {"jobs": jobs, "groups": [{"batch_size": 500, "time_based": False, "try_add": try_add, "walltime": 10, "nproc": None, "cpus": 4}],
                   "max_nodes": None, "poll": 1, "reports": False, "dry_run": False, "dsub": True, "mode": "hpc", "hooks": nohooks}
            with H.Sim(scn) as sim:
                sim.submit()
                out = sim.drive()
                sizes = [len(r["jobs"]) for r in sim.w.events("sbatch")]
                if out != "complete" or sizes != want:
                    return f"try_add_blocked_jobs={try_add}: outcome {out}, batch sizes {sizes}, expected {want}"
        # test_cancel_on_failure: job 2 fails, 3..8 form a chain behind it with the cancel flag
        jobs = [{"name": "j1", "blocked_by": [], "cancel": True, "rc": 0, "est": 1, "group": 0},
                {"name": "j2", "blocked_by": [], "cancel": True, "rc": 2, "est": 1, "group": 0}]
        for i in range(3, 9):
            jobs.append({"name": f"j{i}", "blocked_by": [f"j{i - 1}"], "cancel": True, "rc": 0, "est": 1, "group": 0})
        for bs in (8, 1):  # detected by the runner (one batch) / by the submitter (one job per batch)
            scn = {"jobs": jobs, "groups": [{"batch_size": bs, "time_based": False, "try_add": True, "walltime": 10, "nproc": None, "cpus": 4}],
                   "max_nodes": None, "poll": 1, "reports": False, "dry_run": False, "dsub": True, "mode": "hpc", "hooks": nohooks}
            with H.Sim(scn) as sim:
                sim.submit()
                out = sim.drive()
                summ = sim.results_summary()
                if out != "complete" or summ is None:
                    return f"cancel_on_failure (batch size {bs}): outcome {out}"
                got = {n: H.classify_result(r[0], r[1]) for n, r in summ["results"].items()}
                want = {"j1": "successful", "j2": "failed"}
                want.update({f"j{i}": "canceled" for i in range(3, 9)})
                if got != want or summ["missing"]:
                    return f"cancel_on_failure (batch size {bs}): {got} missing {summ['missing']}"
        return None
    finally:
        W.restore_stdio()
        H.cleanup_scratch()


def main(argv):
    t0 = time.time()
    for name, fn in (("lock model vs real SoftFileLock", lock_differential), ("squeue text vs real parser", squeue_roundtrip),
                     ("repository integration scenarios in the world", repo_scenarios)):
        try:
            err = fn()
        except Exception as e:  # noqa: BLE001
            import traceback

            traceback.print_exc()
            err = repr(e)
        if err:
            return _fail(f"{name}: {err}")
        print(f"selftest ok: {name}")
    print(f"selftest passed in {time.time() - t0:.1f}s")
    return 0


if __name__ == "__main__":
    sys.exit(main(sys.argv[1:]))
