#!/bin/sh
# usage: tools/try_patch.sh <patch file> <property ids...>  -- apply a patch to a fresh scratch worktree of /repo HEAD, run the quick checks, remove it
PATCH="$1"; shift
WT=/tmp/tp_$$
git -C /repo worktree add -q "$WT" HEAD || exit 2
if git -C "$WT" apply "$PATCH"; then
  /verif/tools/try_seed.sh "$WT" "$@"
else
  echo "PATCH DOES NOT APPLY to HEAD"
fi
git -C /repo worktree remove --force "$WT"
