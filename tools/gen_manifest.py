"""Regenerate /verif/MANIFEST.json from the table below (run with any python3)."""
import json
import os

VERIF = os.path.dirname(os.path.dirname(os.path.abspath(__file__)))

WORLD_NOTE = ("trusted base: the simulation world (SLURM simulator speaking the sbatch/squeue/scancel text interface, "
              "model of filelock.SoftFileLock validated against the real library, fake job processes, virtual clock, "
              "per-process hostname/environment); scheduling points are lock operations, external commands and sleeps "
              "(plus file mutations where stated); schedules and fault positions are sampled unless stated exhaustive")

T_WORLD = "property-based testing (Hypothesis): generated scenario x schedule in a deterministic simulation world, "

CHECKS = {
    "C01": dict(cat="exploration", engine="E1-world", tech=T_WORLD + "invariant over the sbatch/launch history",
                text="Real JADE code runs generated DAGs/parameters under generated schedules of login-node and compute-node "
                     "submitter rounds; every job must appear in at most one sbatch snapshot, batch numbers are never "
                     "reused, no job is launched twice, and at fault-free completion every job was placed once or "
                     "canceled without running. Sampled schedules; no absence proof."),
    "C02": dict(cat="exploration", engine="E1-world", tech=T_WORLD + "invariant at every job launch against result rows on disk",
                text="At the instant of every job launch the result rows on disk are read raw and must cover the job's "
                     "blocked_by list; HPC mode across batches/groups and local mode."),
    "C03": dict(cat="exploration", engine="E1-world+E3-model", tech=T_WORLD + "metamorphic family compared with a reference evaluation of the DAG",
                text="One (DAG, exit codes, flags) core is run under 2-4 generated parameter sets (incl. local mode) and schedules; "
                     "each must complete with one result per job, no missing, and classes equal to the reference model."),
    "C04": dict(cat="exploration", engine="E1-world+E3-model", tech=T_WORLD + "differential against the reference cancellation model",
                text="Canceled-by-reference <=> canceled result with non-zero code and zero launches; all other jobs "
                     "launched exactly once; generator biased to cancellation chains across same-batch / later-batch placements."),
    "C05": dict(cat="exploration", engine="E1-world", tech=T_WORLD + "bounded-progress and single-completion invariants over the history",
                text="Bounded liveness: each quiescent recovery round must submit or complete; ready jobs stay unsubmitted only "
                     "when max-nodes binds; completion flips once, after results.json, and nothing is submitted afterwards."),
    "C06": dict(cat="exploration", engine="E1-world", tech=T_WORLD + "invariant on the simulator's active-batch count and per-node live process count",
                text="After every sbatch the simulator's queued+running batches <= max-nodes; after every launch live job "
                     "processes on the node <= processes-per-node or the node's CPU count."),
    "C07": dict(cat="exploration", engine="E1-world+E3-model", tech="exhaustive enumeration of a small-scope grid (itertools) plus Hypothesis-generated scenarios in the simulation world; validity predicate per sbatch; dry-run metamorphic relation",
                text="Every batch handed to sbatch is checked against its group's size/time limit, group purity, #SBATCH and run options, "
                     "and the blocked-job admission rule; first rounds enumerated exhaustively for <=3 jobs (and an n=4 sub-space in the "
                     "thorough tier), full submissions generated beyond that; dry run compared with the real first round."),
    "C09": dict(cat="exploration", engine="E1-world", tech=T_WORLD + "state invariant and forward-only relation over snapshots taken at every cluster-lock release",
                text="The four cluster files are snapshotted after every release of the cluster lock (any process) in histories with "
                     "submitter rounds, cancellations, user commands and resubmissions; each snapshot must be internally consistent and "
                     "only move forward within an epoch; final state read back through the public API."),
    "C13": dict(cat="exploration", engine="E1-world+E3-model", tech=T_WORLD + "differential against the reference closure model; before/after comparison of results and state",
                text="Completed submissions produced by the world itself (incl. lost batches) are resubmitted with all flag combinations, "
                     "new exit codes and repetitions; launches must equal the reference closure, other results preserved; refusal on "
                     "incomplete submissions (idle and while another process is submitter) must be clean and leave a way forward."),
    "C14": dict(cat="exploration", engine="E1-world", tech=T_WORLD + "history invariant relative to the instant the canceled flag became visible",
                text="cancel-jobs is fired a generated number of steps into the run (with/without --complete) followed by generated "
                     "try-submit-jobs/show-status commands; no sbatch after the flag, every active id scancelled, earlier results kept, "
                     "never-run jobs reported missing."),
    "C16": dict(cat="exploration", engine="E1-world", tech=T_WORLD + "invariant over hook invocations recorded at the subprocess boundary",
                text="All 16 set/unset combinations of the four lifecycle commands, HPC and local mode, optional resubmission; counts, "
                     "ordering relative to sbatch/launch/finish/completion, hosts and environment of every hook invocation are checked."),
    "C08": dict(cat="exploration", engine="E1-world(scheduler)+E4-direct", tech=T_WORLD + "multiset equality (appended rows == consolidated rows == union of reported rows) under schedules at lock- and file-operation granularity; tiny configuration enumerated up to 2 pre-emptions in the thorough tier",
                text="Runner and collector processes calling the real ResultsAggregator are interleaved at every lock operation and every "
                     "file open/commit/remove; nothing may be lost, duplicated, changed or reported twice and the consolidated file must "
                     "always parse. One case in ten is a whole generated submission (real run-jobs / try-submit-jobs processes): at "
                     "completion every job that ran has exactly one consolidated row, no row is left in a node file and every "
                     "consolidated row's job was reported to a round (recorded as done)."),
    "C10": dict(cat="exploration", engine="E1-world(scheduler)+E4-direct", tech="model-based testing: generated operation sequences over several Cluster handles against a reference model (Hypothesis), plus generated bursts of concurrent submitter processes in the simulation world",
                text="Operation sequences over 2-4 handles on distinct hosts: promotion iff free, stale writes rejected with files "
                     "byte-identical, fresh writes accepted; bursts of try-submit-jobs/show-status processes interleaved at file-operation "
                     "granularity: role never taken over while held, rounds never overlap, no double submission."),
    "C11": dict(cat="fault_enumeration", engine="E1-world", tech="fault injection enumerated over every scheduling point of every submitter invocation of fixed scenarios (kill, lock timeout, EDQUOT at commit, sbatch/squeue failures; both lock-library behaviours) plus Hypothesis-generated scenario x schedule x fault",
                text="Every kill point and every single injected failure of a submitter round (login and compute nodes) for fixed small "
                     "scenarios, and generated ones beyond; safety over the whole faulty history: no double sbatch, no double start, "
                     "dependency order, result rows never lost; squeue-only faults must still end in full completion."),
    "C12": dict(cat="fault_enumeration", engine="E1-world+E3-model", tech=T_WORLD + "generated lost batches / node kills / cycles / operator commands; differential against the reference classification with the simulator's ground truth of lost jobs",
                text="sbatch failures (series, garbled, transient), node kills at generated points (NODE_FAIL/TIMEOUT), dependency cycles and "
                     "operator commands during the run; final results.json must match the reference: missing set exact, nothing "
                     "fabricated or dropped, completion reached."),
    "C15": dict(cat="exploration", engine="E1-world", tech=T_WORLD + "ordering and state invariants over multi-stage pipeline histories",
                text="Pipelines of 1-4 generated stages (config files or auto-config commands), lost batches, resubmission of a completed "
                     "stage; stage order, single creation, recorded stage number and return codes, pipeline completion."),
    "C17": dict(cat="exploration", engine="E4-direct", tech="property-based testing (Hypothesis): round-trip oracle over generated configurations and rejection oracle over single injected invalidities",
                text="Generated configurations over the public job/group models round-trip through JSON field for field and are accepted; "
                     "each injected invalidity is rejected with InvalidConfiguration before any external command.",
                note="trusted base: the generator of valid configurations (names by [\\w.-]+, effective-name uniqueness, estimates relative to the job's own group's walltime); JSON only"),
    "C18": dict(cat="exploration", engine="E4-direct", tech="property-based testing (Hypothesis): independent expectation for generated SLURM scripts, conservative-decision oracle over generated squeue/sbatch texts, reference model of the retry loop",
                text="Scripts for 1-3 groups through the real objects vs an independent expectation; squeue texts over the full state "
                     "vocabulary vs the completion decision; sbatch responses vs GOOD/ERROR; scripted failure sequences vs the retry loop; plus "
                     "whole generated submissions in the simulation world (with unusual SLURM states and status-query outages): a batch "
                     "the simulated scheduler holds as PENDING/RUNNING is never dropped from, or left out of, the recorded active ids.",
                note="trusted base: scripted stand-in for jade.utils.run_command._run_command (the process boundary); option spelling compared modulo '_'/'-'"),
    "C19": dict(cat="exploration", engine="E4-direct", tech="property-based testing (Hypothesis) with real child processes: argv/env round-trip through an independent POSIX quoter and a /bin/sh probe",
                text="Argument lists over a quoting/whitespace/special-character alphabet are rendered by an independent quoter, run for "
                     "real through generate_command + AsyncCliCommand (and JobRunner batches); the probe's argv/env, stdio files and the "
                     "recorded result row must match.",
                note="trusted base: the independent quoter and the /bin/sh probe; real processes on this machine"),
    "C20": dict(cat="exploration", engine="E4-direct", tech="property-based testing (Hypothesis): multiset/order/idempotence oracle for events, min/max/mean reference for statistics through a scripted monitor, partition oracle for tallies",
                text="Generated event multisets over several files (incl. merged per-job logs), generated sample sequences through a scripted "
                     "monitor (aggregated and periodic paths), generated result sets through the summary writers; plus whole generated "
                     "submissions in the simulation world with event logging and node resource monitoring on, every record reaching an "
                     "*events.log file compared with the consolidated summary (open known finding K2).",
                note="trusted base: scripted stand-in for jade.resource_monitor.ResourceMonitor (the psutil boundary); non-negative samples; E1 for the flow sub-case"),
}

NOT_BUILT = "check not built yet (work in progress; see DESIGN.md section 9 build order)"


ADDENDA = {
    "C04": " A quarter of the cases continue with resubmit-jobs: the reference classification must hold again in the rerun.",
    "C05": " A third of the cases continue with resubmit-jobs: the rerun must progress in every recovery round and complete without missing jobs.",
    "C06": " Also under failing scheduler commands (squeue outages, sbatch rejected once / for a whole retry series / every 2nd-3rd batch for good), "
           "poll intervals of 1 s - 5 min (how long a squeue answer is trusted), a busy cluster (batches wait in the queue) and many small batches.",
    "C08": " A third of the direct cases continue with the rewrite resubmit-jobs performs (clear_results_for_resubmission) and a second generation of writers and collectors; batch numbers of one to three digits.",
    "C09": " 3/7 of the submissions use multi-node batches (run-jobs on every node of the allocation, results recorded by node 0 only); what `show-status -j` prints while rounds go on must be one consistent status.",
    "C10": " Process sub-case also issues resubmit-jobs at the instant the completing process has set is_complete and still holds the role: a process refused the role must not change the state.",
    "C14": " In 4/7 of the cases a scancel request fails and that batch goes on: the submission must not be declared complete while a batch is queued or running its jobs.",
    "C20": " Flow sub-case: a quarter of the runs in local mode; every event handed to the event logger by a process with event logging set up must reach an event file.",
    "C18": " Script sub-check: numeric parameter values incl. 0; the expected #SBATCH map is built from the generated values.",
    "C19": " Half of the batch cases create the configuration from a commands file (auto_config).",
}


def main():
    props = [json.loads(l) for l in open(os.path.join(VERIF, "properties.jsonl"))]
    checks = []
    na = []
    for p in props:
        pid = p["id"]
        c = CHECKS.get(pid)
        if c is None:
            na.append({"property_id": pid, "reason": NOT_BUILT})
            continue
        checks.append({
            "property_id": pid,
            "quick_cmd": f"./check {pid} quick",
            "thorough_cmd": f"./check {pid} thorough",
            "evidence_file": f"evidence/{pid}.json",
            "replay_cmd_template": f"./check {pid} --replay {{path}}",
            "engine": c["engine"],
            "level_claimed": {"category": c["cat"], "text": c["text"] + ADDENDA.get(pid, ""), "design_ref": f"DESIGN.md section 4 {pid}"},
            "level_note": c.get("note", WORLD_NOTE),
            "technique": c["tech"],
        })
    m = {
        "version": 1,
        "setup_cmd": "/venv/bin/python -c 'import hypothesis' 2>/dev/null || /venv/bin/pip install -q --no-index --find-links "
                     "/opt/veriftools/wheels hypothesis; [ -d .deps/atheris ] || /venv/bin/pip install -q --no-index --find-links "
                     "/opt/veriftools/wheels --target .deps atheris || true; ./check selftest",
        "hooks": {
            "guard": "NREL_JADE_VERIF",
            "enable": "no hooks: all instrumentation is external interposition on library entry points; checks import "
                      "/repo's working tree through PYTHONPATH (no build step)",
            "baseline_off_cmd": "cd /repo && /venv/bin/python -m pytest -ra -q -p no:cacheprovider --timeout=900 "
                                "--continue-on-collection-errors",
            "source_commits": [],
            "add_only": True,
        },
        "engines": [
            {"name": "E1-world", "path": "jv/world.py", "serves_properties": sorted(k for k, c in CHECKS.items() if "E1" in c["engine"]),
             "kind_free_text": "deterministic simulation world (virtual processes, simulated SLURM, lock model, virtual clock) driven by Hypothesis"},
            {"name": "E3-model", "path": "jv/refmodel.py", "serves_properties": sorted(k for k, c in CHECKS.items() if "E3" in c["engine"]),
             "kind_free_text": "reference model of job outcomes / batch validity / resubmission closure"},
            {"name": "E5-fuzz", "path": "jv/fuzz.py", "serves_properties": ["C18"],
             "kind_free_text": "coverage-guided fuzzing (atheris/libFuzzer) of the squeue/sbatch text parsers with the oracle inside the target"},
            {"name": "E4-direct", "path": "jv/props", "serves_properties": sorted(k for k, c in CHECKS.items() if "E4" in c["engine"]),
             "kind_free_text": "direct Hypothesis tests and rule-based state machines on JADE components"},
        ],
        "checks": checks,
        "not_applicable": na,
        "notes": "Every check: ./check <ID> <quick|thorough>; replay: ./check <ID> --replay <file>; VERIF_SEED selects the "
                 "Hypothesis seeds (derived per shard); JV_WORKERS overrides the number of worker processes (default 16).",
    }
    if not na:
        m.pop("not_applicable")
        m["not_applicable"] = []
    with open(os.path.join(VERIF, "MANIFEST.json"), "w") as f:
        json.dump(m, f, indent=1)
        f.write("\n")
    print("wrote MANIFEST.json:", len(checks), "checks,", len(na), "not applicable")


if __name__ == "__main__":
    main()
