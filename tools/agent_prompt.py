"""usage: tools/agent_prompt.py <ID> <worktree> [round]  -- prompt for a sub-agent that seeds a property-breaking change.

The sub-agent gets only the property's text, its scratch worktree and one line per earlier seeded change of that
property (what to avoid); nothing else from /verif.
"""
import glob, json, os, re, sys

pid, wt = sys.argv[1], sys.argv[2]
rnd = sys.argv[3] if len(sys.argv) > 3 else "7"
here = os.path.dirname(os.path.dirname(os.path.abspath(__file__)))
prop = next(json.loads(l) for l in open(os.path.join(here, "properties.jsonl")) if json.loads(l)["id"] == pid)
text = "%s -- %s\n\n%s\n\nQuantifier: %s\n\nCode anchors: %s" % (
    prop["id"], prop["title"], prop["statement"], prop.get("quantifier", ""), json.dumps(prop.get("anchors", "")))

avoid = []
files = set()
for d in sorted(glob.glob(os.path.join(here, "seeded", pid + "*"))):
    try:
        m = json.load(open(os.path.join(d, "meta.json")))
    except Exception:
        continue
    avoid.append("- " + re.sub(r"\s+", " ", m.get("breaks", ""))[:260])
    try:
        for l in open(os.path.join(d, "patch.diff")):
            if l.startswith("+++ b/"):
                files.add(l[6:].strip())
    except Exception:
        pass

FOCUS = {
    "8": "Situations that are used in production but easy to forget, pick one that fits the property: multi-node batches "
         "(SlurmConfig nodes >= 2: srun starts `jade-internal run-jobs` on every node, SLURM_NODEID 0 is the manager, every node runs "
         "the commands and its own try-submit-jobs); `--no-distributed-submitter`; per-group differences (two or three submission groups "
         "with different partitions / batch sizes / processes-per-node); `max_nodes` reached exactly; the LAST batch of a group; "
         "more than 9 batches or jobs (string vs numeric order of batch ids and job ids); `show-status` and `cancel-jobs` issued while "
         "a compute node is half-way through its round; `resubmit-jobs` more than once; pipelines with three stages; local mode; "
         "time-based batching where the estimates add up to exactly the limit; jobs killed by a signal (negative return code); "
         "job names that look like numbers; hooks that fail; reports enabled (events, stats). Files that were touched rarely: "
         "jade/jobs/job_runner.py, jade/jobs/job_queue.py, jade/hpc/hpc_manager.py, jade/hpc/common.py, jade/jobs/job_submitter.py "
         "(completion, reports, results summary), jade/jobs/results_summary.py, jade/result.py, jade/models/*.py, "
         "jade/jobs/pipeline_manager.py, jade/cli/*.py, jade/events.py, jade/resource_monitor.py, jade/utils/*.py.",
    "7": "Places nobody has looked at yet, pick one that fits the property: jade/jobs/job_queue.py, jade/jobs/async_cli_command.py, "
         "jade/jobs/results_aggregator.py (batch-id handling, append paths), jade/jobs/cluster.py (get_status_summary, "
         "iter/lookup helpers, prepare_for_resubmission, _get_job_status / job-state transitions), jade/hpc/hpc_manager.py "
         "(config lookups, get_num_cpus, cancel_job), jade/hpc/slurm_manager.py (time parsing, list options), "
         "jade/hpc/common.py, jade/models/*.py (validators, defaults, helper properties), jade/jobs/job_configuration.py "
         "(iteration order, lookups by name vs id, get_jobs_blocked_by / reset helpers), jade/jobs/job_container_by_key.py, "
         "jade/cli/*.py (option plumbing: a flag not forwarded, a default changed in one command only), "
         "jade/utils/run_command.py, jade/utils/utils.py (load/dump helpers, rotate/backup), jade/result.py (serialise / "
         "deserialise), jade/events.py, jade/jobs/pipeline_manager.py, jade/jobs/job_post_process.py, jade/common.py constants. "
         "Mechanism ideas: an off-by-one or boundary that only matters at an exact size; string vs int comparison of ids or batch "
         "numbers (batch 10 vs 2, job id '10' vs 10); sort order (lexicographic vs numeric) once there are >= 10 batches or jobs; "
         "a cached value that goes stale only after a second round / second group / resubmission; an optimisation that skips work "
         "when a counter looks unchanged; a default argument that is mutable; state shared between two groups; a condition that "
         "differs only for the LAST batch / LAST job / FIRST round; `is` vs `==`; truthiness of 0 / empty string / None; "
         "exception handler widened; a float/int rounding of minutes or seconds; a path built relative to cwd.",
}

print(f"""You are helping to evaluate a verification tool by producing ONE realistic, subtle regression ("seeded bug") in the Python project NREL/jade (an HPC job-submission tool that batches jobs with dependencies onto SLURM nodes and coordinates distributed submitters through file-locked shared state).

Your scratch git worktree of the project is at {wt} (work ONLY there; never touch /repo or /verif, and do not read anything under /verif). The package is not pip-installed: import it with PYTHONPATH={wt}. Python: /venv/bin/python (3.12). There is no `jade` executable and no SLURM; nothing can be installed (no network). Set the environment variable JADE_REGISTRY to a scratch file path (e.g. {wt}/.reg.json) whenever you import jade, otherwise it writes into $HOME. NEVER use `git stash` (worktrees share the stash): to test without your change use `git apply -R patch.diff` and then `git apply patch.diff` again.

THE PROPERTY THAT YOUR CHANGE MUST BREAK:

{text}

WHAT TO PRODUCE:
1. A small source change to files under {wt}/jade/ (a few lines; something a tired developer could plausibly write during a refactor or an "optimisation") that makes the property above FALSE for some inputs / schedules / histories, while the code still imports and the project's existing test-suite still passes exactly as before. The existing suite is run with:
     cd {wt} && /venv/bin/python -m pytest -q -p no:cacheprovider --timeout=900 --continue-on-collection-errors
   On the unmodified tree it gives "43 failed, 125 passed, 5 skipped" (the 43 failures are pre-existing: they need the missing `jade` executable etc.). After your change the SAME 125 tests must still pass (same pass count, no new failures). Run the suite only once, at the end (other agents share the machine).
2. The change must NOT be one that ordinary use would expose at once. It must need something specific to manifest: a particular interleaving of processes, a crash/fault at a particular point, a multi-step sequence of operations, an unusual input, a specific parameter combination, or two cooperating code sites that each look fine alone.
3. The failing state must be reachable through JADE's own commands and classes used the way JADE uses them (submit-jobs, jade-internal run-jobs, try-submit-jobs, cancel-jobs, resubmit-jobs, show-status, pipeline submit, config create/load, and the classes behind them called as those commands call them) -- not by calling a private method directly with arguments no caller passes.
4. A demonstration: a self-contained script {wt}/demo_{pid}.py (plain Python, runnable with `cd {wt} && JADE_REGISTRY={wt}/.reg.json PYTHONPATH={wt} /venv/bin/python demo_{pid}.py`) that exits non-zero WITH your change and exits 0 WITHOUT it (verify both). The demo may call JADE's Python API directly and may monkeypatch subprocess / run_command / time to fake SLURM (sbatch/squeue) and job processes, since no scheduler exists here. Keep it deterministic and under ~30 s.
5. Save the change as a unified diff: `cd {wt} && git diff -- jade > {wt}/patch.diff` (the diff must only touch files under jade/, not tests, and must not include the demo). Leave the change applied in the worktree.

EARLIER CHANGES FOR THIS PROPERTY -- DO NOT REPEAT THESE OR CLOSE VARIANTS; use a different mechanism and, if you can, a different file than {", ".join(sorted(files)) or "(none)"}:
{chr(10).join(avoid) or "(none)"}
Also banned because they were produced many times already: moving result collection before/after the squeue poll; making the cancel walk in _update_completed_jobs single-pass; skipping jobs in resubmit-jobs' blocker fixpoint; swallowing a failed squeue; dropping a per-file lock in the results aggregator; mapping unknown SLURM states to finished.

WHERE TO LOOK: {FOCUS.get(rnd, FOCUS["7"])}

FINALLY reply with: (a) a 3-6 line description of the change and which part of the property it breaks, (b) exactly what is needed for it to manifest (inputs / schedule / fault / sequence), (c) the commands you ran and their observed results for: demo with the change (fails), demo without the change (passes), existing suite with the change (125 passed). Do not write any other files outside {wt}.""")
