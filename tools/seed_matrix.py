"""Re-run every saved seeded change against the check(s) recorded as catching it (quick tier) at the current /verif HEAD.

usage: python3 tools/seed_matrix.py [dir-names...]      writes /verif/seeded/seed_matrix.json
For each seeded/<dir>/ with a non-empty meta.caught_by: scratch worktree of /repo HEAD + patch.diff, then
`JV_REPO=<worktree> ./check <ID> quick` (evidence and replays redirected) for each listed check until one exits 1.
"""
import json
import os
import subprocess
import sys

ROOT = "/verif/seeded"
out_file = os.path.join(ROOT, "seed_matrix.json")
want = set(sys.argv[1:])
res = json.load(open(out_file)) if os.path.exists(out_file) and want else {}
dirs = sorted(d for d in os.listdir(ROOT) if os.path.isfile(os.path.join(ROOT, d, "meta.json")) and (not want or d in want))
for d in dirs:
    meta = json.load(open(os.path.join(ROOT, d, "meta.json")))
    caught_by = meta.get("caught_by")
    if caught_by is None:
        caught_by = [meta.get("property", d[:3])]
    if isinstance(caught_by, str):
        caught_by = [caught_by]
    if not caught_by:
        res[d] = {"skipped": "recorded as not caught (see meta.json)"}
        continue
    wt = f"/tmp/sm_{os.getpid()}_{d}"
    subprocess.run(["git", "-C", "/repo", "worktree", "add", "-q", "--detach", wt, "HEAD"], check=True)
    try:
        ap = subprocess.run(["git", "-C", wt, "apply", os.path.join(ROOT, d, "patch.diff")], capture_output=True, text=True)
        if ap.returncode != 0:
            res[d] = {"error": "patch does not apply: " + ap.stderr[:200]}
            continue
        runs = {}
        killed = False
        for cid in caught_by:
            cid = cid[:3]
            env = dict(os.environ, JV_REPO=wt, JV_EVIDENCE_DIR="/tmp/sm_ev", JV_REPLAY_DIR="/tmp/sm_rp", VERIF_SEED="1")
            p = subprocess.run(["timeout", "1200", "/verif/check", cid, "quick"], capture_output=True, text=True, env=env, cwd="/verif")
            sig = [ln.strip()[:160] for ln in p.stdout.splitlines() if ln.strip().startswith("violation")][:1]
            runs[cid] = {"exit": p.returncode, "first": sig}
            if p.returncode == 1:
                killed = True
                break
        res[d] = {"caught": killed, "runs": runs}
    finally:
        subprocess.run(["git", "-C", "/repo", "worktree", "remove", "--force", wt])
    print(d, res[d].get("caught"), {k: v["exit"] for k, v in res[d].get("runs", {}).items()}, flush=True)
    json.dump(res, open(out_file, "w"), indent=1, sort_keys=True)
subprocess.run(["git", "-C", "/repo", "worktree", "prune"])
n = sum(1 for v in res.values() if v.get("caught"))
print(f"{n}/{sum(1 for v in res.values() if 'caught' in v)} seeded changes caught by a recorded check at the quick tier")
