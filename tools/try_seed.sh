#!/bin/sh
# usage: tools/try_seed.sh <worktree> <property id> [more property ids...]
# Runs the quick checks of the given properties against a scratch worktree holding a seeded change.
WT="$1"; shift
mkdir -p /tmp/seed_ev /tmp/seed_rp
for P in "$@"; do
  JV_REPO="$WT" JV_EVIDENCE_DIR=/tmp/seed_ev JV_REPLAY_DIR=/tmp/seed_rp timeout 900 /verif/check "$P" quick > /tmp/seed_run_$P.log 2>&1
  rc=$?
  echo "== $P against $WT: exit $rc"
  grep -E "^\[|VIOLATION|violation \[|HARNESS" /tmp/seed_run_$P.log | cut -c1-400 | head -8
done
