"""usage: tools/save_seed.py <ID> <worktree> <json meta>  -- store a confirmed seeded change under /verif/seeded/<name>/"""
import json, os, shutil, sys
sid, wt, meta = sys.argv[1], sys.argv[2], json.loads(sys.argv[3])
name = meta.pop("dir", sid)
d = os.path.join("/verif/seeded", name)
os.makedirs(d, exist_ok=True)
shutil.copy(os.path.join(wt, "patch.diff"), os.path.join(d, "patch.diff"))
for f in os.listdir(wt):
    if f.startswith("demo_") and f.endswith(".py"):
        shutil.copy(os.path.join(wt, f), os.path.join(d, f))
meta.setdefault("property", sid)
json.dump(meta, open(os.path.join(d, "meta.json"), "w"), indent=1)
print("saved", d, sorted(os.listdir(d)))
