"""Hand-made sensitivity mutants (DESIGN.md section 4 'Sens.' lists).  For each entry: copy /repo's tracked tree into a
scratch worktree, apply one textual edit, run the named quick check(s) against it (JV_REPO, evidence/replays redirected)
and record the exit code.  A mutant is *killed* when some named check exits 1.

usage: python3 tools/mutants.py [ids...]       (writes /verif/seeded/hand_mutants.json)
"""
import json
import os
import subprocess
import sys

M = [
    # (id, checks, file, old, new)
    ("C01-a", ["C01"], "jade/hpc/hpc_submitter.py", "                if job.name in submitted_jobs_by_name:\n                    continue\n", ""),
    ("C01-b", ["C01"], "jade/jobs/cluster.py", "        self._job_status.batch_index = batch_index\n", ""),
    ("C02-a", ["C02", "C07"], "jade/hpc/hpc_submitter.py", "        if not job.blocked_by:\n            return False\n", "        return False\n"),
    ("C02-b", ["C02"], "jade/jobs/job_queue.py", "        elif job.get_blocking_jobs():\n", "        elif False:\n"),
    ("C03-a", ["C03", "C04"], "jade/result.py", "        return self.return_code != 0 and self.status == JobCompletionStatus.FINISHED.value\n",
     "        return self.return_code != 0\n"),
    ("C03-b", ["C03", "C08"], "jade/jobs/results_aggregator.py", "            for result in results:\n                text = self._delimiter.join",
     "            for result in results[1:]:\n                text = self._delimiter.join"),
    ("C04-a", ["C04"], "jade/jobs/job_queue.py", "                        if job.cancel_on_blocking_job_failure and blocking_jobs.intersection(\n",
     "                        if False and blocking_jobs.intersection(\n"),
    ("C04-b", ["C04"], "jade/hpc/hpc_submitter.py", "                        new_results.append(result)\n                        need_to_rerun = True\n",
     "                        new_results.append(result)\n                        need_to_rerun = False\n"),
    ("C04-c", ["C04"], "jade/hpc/hpc_submitter.py", "                    if job.cancel_on_blocking_job_failure and job.blocked_by.intersection(\n                        failed_jobs\n",
     "                    if job.cancel_on_blocking_job_failure and job.blocked_by.intersection(\n                        newly_completed\n"),
    ("C05-a", ["C05"], "jade/cli/try_submit_jobs.py", "    finally:\n        cluster.demote_from_submitter()\n", "    finally:\n        pass\n"),
    ("C05-b", ["C05"], "jade/hpc/hpc_submitter.py", "        completed_job_names, canceled_jobs = self._update_completed_jobs()\n",
     "        completed_job_names, canceled_jobs = self._update_completed_jobs()\n        if not completed_job_names and starting_batch_index > 1:\n            return False\n"),
    ("C06-a", ["C06"], "jade/hpc/hpc_submitter.py", "            existing_jobs=hpc_submitters,\n", "            existing_jobs=None,\n"),
    ("C06-b", ["C06"], "jade/jobs/job_queue.py", "        return len(self._outstanding_jobs) >= self._queue_depth\n", "        return len(self._outstanding_jobs) > self._queue_depth\n"),
    ("C06-c", ["C06", "C07"], "jade/hpc/hpc_submitter.py", "        if submission_group.submitter_params.num_parallel_processes_per_node is not None:\n", "        if False:\n"),
    ("C07-a", ["C07"], "jade/hpc/hpc_submitter.py", "        elif self.num_jobs >= self._per_node_batch_size:\n", "        elif self.num_jobs > self._per_node_batch_size:\n"),
    ("C07-b", ["C07"], "jade/hpc/hpc_submitter.py", "            if jade_job.submission_group == submission_group.name:\n                available_jobs.append(job)\n",
     "            if True:\n                available_jobs.append(job)\n"),
    ("C07-c", ["C07"], "jade/hpc/hpc_submitter.py", "            > self._max_batch_time\n", "            > self._max_batch_time * 2\n"),
    ("C08-a", ["C08"], "jade/jobs/results_aggregator.py", "        self._do_action_under_lock(self._append_result, text)\n", "        self._append_result(text)\n"),
    ("C08-b", ["C08"], "jade/jobs/results_aggregator.py", "        func(results)\n        os.remove(self._filename)\n", "        func(results)\n"),
    ("C08-c", ["C08"], "jade/jobs/results_aggregator.py", "            if f_out.tell() == 0:\n", "            if False:\n"),
    ("C09-a", ["C09"], "jade/jobs/cluster.py", "        for _ in canceled_jobs:\n            self._config.submitted_jobs += 1\n", ""),
    ("C09-b", ["C09"], "jade/jobs/cluster.py", "            self._job_status.version += 1\n", "            pass\n"),
    ("C10-a", ["C10"], "jade/jobs/cluster.py", "        if self._config.version != current:\n", "        if False:\n"),
    ("C10-b", ["C10"], "jade/jobs/cluster.py", "        if self.has_submitter():\n            return False\n", ""),
    ("C11-a", ["C11"], "jade/hpc/hpc_submitter.py", "        if lock_file.exists():\n", "        if False:\n"),
    ("C12-a", ["C12"], "jade/hpc/hpc_submitter.py", "                is_complete = True\n", "                is_complete = False\n"),
    ("C12-b", ["C12"], "jade/jobs/job_submitter.py", "            missing_jobs = sorted(all_jobs.difference(finished_jobs))\n", "            missing_jobs = sorted(all_jobs.difference(finished_jobs))[1:]\n"),
    ("C13-a", ["C13"], "jade/cli/resubmit_jobs.py", "        if num_added == 0:\n            break\n", "        break\n"),
    ("C13-b", ["C13"], "jade/cli/resubmit_jobs.py", "    _reset_results(output, jobs_to_resubmit)\n", ""),
    ("C13-c", ["C13"], "jade/jobs/cluster.py", "                job.blocked_by = updated_blocking_jobs_by_name.get(job.name, set())\n", "                pass\n"),
    ("C14-a", ["C14"], "jade/jobs/job_submitter.py", "            hpc.cancel_job(job_id)\n", "            pass\n"),
    ("C15-a", ["C15"], "jade/jobs/pipeline_manager.py", "            if stage_num != self.stage_num + 1:\n", "            if False:\n"),
    ("C15-b", ["C15"], "jade/jobs/pipeline_manager.py", "            self._config.stages[stage_num - 2].return_code = return_code\n", "            self._config.stages[stage_num - 2].return_code = 0\n"),
    ("C16-a", ["C16"], "jade/jobs/job_submitter.py", "                check_run_command(self._config.setup_command, env=env)\n",
     "                check_run_command(self._config.setup_command, env=env)\n                check_run_command(self._config.setup_command, env=env)\n"),
    ("C16-b", ["C16"], "jade/jobs/job_runner.py", "            env[\"JADE_SUBMISSION_GROUP\"] = self._config.get_default_submission_group().name\n", ""),
    ("C16-c", ["C16"], "jade/jobs/job_submitter.py", "        if self._config.teardown_command is not None:\n", "        if self._config.teardown_command is not None and result == Status.GOOD:\n"),
    ("C17-a", ["C17"], "jade/jobs/job_submitter.py", "        self._config.check_job_runtimes()\n", ""),
    ("C17-b", ["C17"], "jade/extensions/generic_command/generic_command_parameters.py", "        return {str(x) for x in value}\n",
     "        return {str(x) for x in value if not str(x).isdigit()}\n"),
    ("C17-c", ["C17"], "jade/jobs/job_configuration.py", "                if estimate > wall_time:\n", "                if estimate >= wall_time:\n"),
    ("C18-a", ["C18"], "jade/hpc/slurm_manager.py", "            statuses[job_id] = SlurmManager._STATUSES.get(status, HpcJobStatus.UNKNOWN)\n",
     "            statuses[job_id] = SlurmManager._STATUSES.get(status, HpcJobStatus.NONE)\n"),
    ("C18-b", ["C18"], "jade/hpc/slurm_manager.py", "                logger.error(\"Failed to interpret sbatch output [%s]\", stdout)\n                result = Status.ERROR\n",
     "                logger.error(\"Failed to interpret sbatch output [%s]\", stdout)\n                result = Status.GOOD\n"),
    ("C18-c", ["C18"], "jade/utils/run_command.py", "    max_tries = num_retries + 1\n", "    max_tries = num_retries + 2\n"),
    ("C18-d", ["C18", "C06"], "jade/hpc/slurm_manager.py", "        \"COMPLETING\": HpcJobStatus.COMPLETE,\n", "        \"COMPLETING\": HpcJobStatus.COMPLETE,\n        \"FAILED\": HpcJobStatus.COMPLETE,\n        \"SUSPENDED\": HpcJobStatus.COMPLETE,\n"),
    ("C19-a", ["C19"], "jade/jobs/async_cli_command.py", "        cmd = shlex.split(self._cli_cmd, posix=\"win\" not in sys.platform)\n", "        cmd = shlex.split(self._cli_cmd, posix=False)\n"),
    ("C19-b", ["C19"], "jade/jobs/async_cli_command.py", "        self._return_code = self._pipe.returncode\n", "        self._return_code = 0 if self._pipe.returncode in (0, 1) else self._pipe.returncode\n"),
    ("C19-c", ["C19"], "jade/jobs/async_cli_command.py", "        self._pipe = subprocess.Popen(cmd, env=env, stdout=self._stdout_fp, stderr=self._stderr_fp)\n",
     "        self._pipe = subprocess.Popen(cmd, env=env, stdout=self._stderr_fp, stderr=self._stdout_fp)\n"),
    ("C20-a", ["C20"], "jade/events.py", "            self._events[name].sort(key=lambda x: x.timestamp)\n", "            self._events[name].sort(key=lambda x: x.timestamp, reverse=True)\n"),
    ("C20-b", ["C20"], "jade/jobs/job_submitter.py", "            elif result.is_failed():\n                num_failed += 1\n", "            elif result.return_code != 0:\n                num_failed += 1\n"),
    ("C20-d", ["C20"], "jade/cli/try_submit_jobs.py", "    setup_event_logging(event_filename, mode=\"a\")\n", "    setup_event_logging(event_filename, mode=\"w\")\n"),
    ("C20-e", ["C20"], "jade/jobs/job_runner.py", "                os.remove(job_file)\n", "                pass\n"),
    ("C20-c", ["C20"], "jade/resource_monitor.py", "                self._summaries[\"average\"][resource_type][stat_name] = val / self._count\n",
     "                self._summaries[\"average\"][resource_type][stat_name] = val / max(1, self._count - 1)\n"),
]


def main(argv):
    want = set(argv)
    out_path = "/verif/seeded/hand_mutants.json"
    try:
        results = json.load(open(out_path))
    except (OSError, ValueError):
        results = {}
    for mid, checks, path, old, new in M:
        if want and mid not in want and mid.split("-")[0] not in want:
            continue
        wt = f"/tmp/mut_{mid}"
        subprocess.run(["git", "-C", "/repo", "worktree", "add", "-q", wt, "HEAD"], check=True)
        try:
            fp = os.path.join(wt, path)
            text = open(fp).read()
            if text.count(old) != 1:
                results[mid] = {"error": f"pattern occurs {text.count(old)} times in {path}"}
                print(mid, results[mid])
                continue
            open(fp, "w").write(text.replace(old, new))
            comp = subprocess.run(["/venv/bin/python", "-m", "py_compile", fp], capture_output=True)
            if comp.returncode != 0:
                results[mid] = {"error": "does not compile"}
                print(mid, results[mid])
                continue
            rec = {"file": path, "edit": [old, new], "checks": {}}
            for c in checks:
                env = dict(os.environ, JV_REPO=wt, JV_EVIDENCE_DIR="/tmp/seed_ev", JV_REPLAY_DIR="/tmp/seed_rp")
                p = subprocess.run(["/verif/check", c, "quick"], env=env, capture_output=True, text=True, timeout=1500)
                lines = [ln for ln in p.stdout.splitlines() if "violation [" in ln]
                rec["checks"][c] = {"exit": p.returncode, "first": (lines[0][:300] if lines else "")}
            rec["killed"] = any(v["exit"] == 1 for v in rec["checks"].values())
            results[mid] = rec
            print(mid, "KILLED" if rec["killed"] else "SURVIVED", {c: v["exit"] for c, v in rec["checks"].items()}, flush=True)
        finally:
            subprocess.run(["git", "-C", "/repo", "worktree", "remove", "--force", wt])
        json.dump(results, open(out_path, "w"), indent=1)
    killed = sum(1 for r in results.values() if r.get("killed"))
    print(f"{killed}/{len(results)} killed")


if __name__ == "__main__":
    main(sys.argv[1:])
