#!/bin/sh
# usage: tools/verify_seed.sh <ID>   -- confirm a seeded change in /tmp/wt_<ID>: demo fails with it, passes without, suite unchanged
ID="$1"; WT="${SEED_WT:-/tmp/wt_$ID}"; cd "$WT" || exit 2
run_demo() { JADE_REGISTRY="$WT/.reg.json" PYTHONPATH="$WT" timeout 300 /venv/bin/python "demo_$ID.py" > /tmp/demo_$ID.$1.log 2>&1; echo $?; }
git checkout -q -- jade && git apply patch.diff || { echo "patch does not apply"; exit 2; }
with=$(run_demo with)
git apply -R patch.diff
without=$(run_demo without)
git apply patch.diff
suite=$(timeout 900 /venv/bin/python -m pytest -q -p no:cacheprovider --timeout=900 --continue-on-collection-errors 2>&1 | tail -1)
echo "$ID: demo with change: exit $with | demo without change: exit $without | suite with change: $suite"
