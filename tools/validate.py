"""Validate MANIFEST.json and evidence files against the given schemas (run with python3-vt)."""
import json, sys, glob
import jsonschema
m = json.load(open('/verif/MANIFEST.json'))
jsonschema.validate(m, json.load(open('/root/.vp/MANIFEST.schema.json')))
es = json.load(open('/root/.vp/EVIDENCE.schema.json'))
ok = True
for c in m["checks"]:
    try:
        jsonschema.validate(json.load(open('/verif/' + c["evidence_file"])), es)
    except Exception as e:
        ok = False
        print("EVIDENCE INVALID", c["property_id"], str(e)[:300])
ids = {c["property_id"] for c in m["checks"]} | {n["property_id"] for n in m.get("not_applicable", [])}
props = {json.loads(l)["id"] for l in open('/verif/properties.jsonl')}
if ids != props:
    ok = False
    print("coverage mismatch", sorted(props - ids), sorted(ids - props))
print("valid" if ok else "INVALID", len(m["checks"]), "checks")
sys.exit(0 if ok else 1)
